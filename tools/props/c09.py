"""C09 — fibers transfer control and values faithfully and keep their own state.

Theorems: Yarel.Props.C09 on the fiber mechanism (chain_ok: the caller links from the active fiber form a finite duplicate-free chain to
the root in every reachable state; reject_untouched; handover_*; isolation_*; active_fiber_dual).
Correspondence:
  (a) every load/unload event of real runs replayed through the fiber model (who the caller is, where control returns, designators agree);
  (b) scenarios with constructed expected output covering every clause of the property, incl. enumerated interleavings of two fibers;
  (c) generated fiber programs against the Lean reference interpreter (S);
  (d) metamorphic: a whole program body run inside a fiber that is called once prints the same.
"""
import itertools
import json

import vlib
import progs
import events
import specdiff

THEOREM_MODULES = ["Yarel.Props.C09", "Yarel.Props.SpecFibers"]
REQUIRED_THEOREMS = ["save_then_load_restores_registers", "save_touches_only_own_fiber", "yield_hands_value_to_caller", "finish_hands_value_to_caller",
                     "call_finished_rejected", "call_called_rejected", "yield_at_root_rejected", "chain_ok", "reject_untouched", "handover_first_call", "handover_resume_repaired", "handover_yield",
                     "handover_finish", "isolation_load", "isolation_unload", "active_fiber_dual"]
# the state the models abstract is all the state there is: the fields of the run-time structures, regenerated on every run, are the ones
# the models were written against (Props/StateInventory)
THEOREM_MODULES.append("Yarel.Props.StateInventory.state_of_interpreter_and_fiber")
REQUIRED_THEOREMS += ['state_of_interpreter_and_fiber']
# who writes the state the mechanism models are about: the set of write sites per group of fields, regenerated on every run (Props/StateWrites)
THEOREM_MODULES.append("Yarel.Props.StateWrites.writers_of_fiber_links")
REQUIRED_THEOREMS += ['writers_of_fiber_links']
LEVEL = "proof"
ASSUMPTIONS = [
    "fiber mechanism model Yarel/Model/Fibers.lean transcribes load_fiber/unload_fiber/return_impl (tie: event replay)",
    "reachability assumes the root fiber is never a script value (it is created by execute and not exposed)",
    "source-level hand-over semantics are tied to the implementation by constructed-oracle scenarios and the reference interpreter",
]
PROFILES = ["fibers"]

SCENARIOS = [
    ("every-fiber-has-its-own-call-depth",
     'fn dive(n, f) { if n == 0 { return f(); } return dive(n - 1, f) + 1; }\nvar fibers = [];\nfor i in 0..3 { fibers.push(Fiber.new(|| dive(20, || Fiber.yield("parked")))); }\nfor f in fibers { print(f.call()); }\nfn deep(n) { if n == 0 { return 0; } return deep(n - 1) + 1; }\nprint("main depth " + String.from(deep(30)) + " ok");\nfor f in fibers { print(f.call(100)); }\nprint(deep(50));\n',
     ["parked", "parked", "parked", "main depth 30 ok", "120", "120", "120", "50"], "ok"),
    ("yield-inside-finally-while-an-exception-propagates",
     'var f = Fiber.new(|| { try { try { throw "boom"; } finally { print("cleanup"); Fiber.yield("in finally"); print("resumed in finally"); } print("not here"); } catch e { print("caught " + e); } return "done"; });\nprint(f.call()); print("main between"); print(f.call()); print(f.has_finished());\n',
     ["cleanup", "in finally", "main between", "resumed in finally", "caught boom", "done", "true"], "ok"),
    ("yield-inside-two-nested-finally-blocks-while-propagating",
     'var f = Fiber.new(|| { try { try { try { throw "bang"; } finally { Fiber.yield("y1"); } } finally { Fiber.yield("y2"); } } catch e { print("inner caught " + e); } return "done"; });\nprint(f.call()); print(f.call()); print(f.call());\n',
     ["y1", "y2", "inner caught bang", "done"], "ok"),
    ("yield-in-a-call-made-by-a-finally-block-caught-in-the-caller-frame",
     'fn pause(v) { return Fiber.yield(v); }\nfn risky() { try { throw "deep"; } finally { print("got " + String.from(pause("from finally"))); } }\nvar f = Fiber.new(|| { try { risky(); print("not here"); } catch e { print("caller frame caught " + e); } return "done"; });\nprint(f.call()); print(f.call("again"));\n',
     ["from finally", "got again", "caller frame caught deep", "done"], "ok"),
    ("variable-captured-before-a-yield-stays-shared-after-it",
     'var log = [];\nvar f = Fiber.new(|| { var loc = 0; var get = || loc; var bump = || { loc = loc + 100; return loc; }; log.push(get); log.push(bump);\n  Fiber.yield("first"); loc = loc + 1; print("fiber sees " + String.from(get())); Fiber.yield("second"); print("fiber sees " + String.from(loc)); loc = loc + 10; return "end"; });\nprint(f.call()); print(log[0]()); print(f.call()); print(log[0]()); print(log[1]()); print(f.call()); print(log[0]());\n',
     ["first", "0", "fiber sees 1", "second", "1", "101", "fiber sees 101", "end", "111"], "ok"),
    ("propagation-state-does-not-outlive-the-handled-exception",
     'var f = Fiber.new(|| { try { try { throw "boom"; } finally { Fiber.yield("in finally"); } } catch e { print("caught " + e); }\n  try { print("second try"); } finally { print("second finally"); } print("after"); return "done"; });\nprint(f.call()); print(f.call());\ntry { print("main try"); } catch e { print("main caught?"); }\n',
     ["in finally", "caught boom", "second try", "second finally", "after", "done", "main try"], "ok"),
    ("handover-all-directions",
     'var f = Fiber.new(|a| { print("start " + a); var b = Fiber.yield("y1"); print("got " + b); var c = Fiber.yield("y2"); print("got " + c); return "done"; });\n'
     'print(f.call("p")); print(f.has_finished()); print(f.call("r1")); print(f.call("r2")); print(f.has_finished());',
     ["start p", "y1", "false", "got r1", "y2", "got r2", "done", "true"], "ok"),
    ("omitted-values-are-nil",
     'var f = Fiber.new(|| { var g = Fiber.yield(); print(g); return; });\nprint(f.call()); print(f.call());',
     ["nil", "nil", "nil"], "ok"),
    ("omitted-resume-argument-is-nil-not-stale",
     'var f = Fiber.new(|a| { var g = Fiber.yield(a); print(g); var h = Fiber.yield(g); print(h); return 0; });\nprint(f.call(7)); print(f.call()); print(f.call());',
     ["7", "nil", "nil", "nil", "0"], "ok"),
    ("finished-fiber-rejected",
     'var f = Fiber.new(|| 1); print(f.call());\ntry { f.call(); } catch e { print(type(e) == RuntimeError); print(e.context); }\nprint(f.has_finished());',
     ["1", "true", "Cannot call a finished fiber.", "true"], "ok"),
    ("running-fiber-rejected-state-untouched",
     'var h = nil;\nh = Fiber.new(|| { var loc = "L"; try { h.call(); } catch e { print(e.context); } var y = Fiber.yield(loc); return loc + y; });\nprint(h.call()); print(h.call("!"));',
     ["Cannot call a fiber that has already been called.", "L", "L!"], "ok"),
    ("indirect-reentry-rejected",
     'var a = nil; var b = nil;\na = Fiber.new(|| { return b.call(); });\nb = Fiber.new(|| { try { a.call(); } catch e { return e.context; } return "no error"; });\nprint(a.call());',
     ["Cannot call a fiber that has already been called."], "ok"),
    ("wrong-argument-counts",
     'try { Fiber.new(|a| a).call(); } catch e { print(type(e) == TypeError); print(e.context); }\n'
     'try { Fiber.new(|| 1).call(1); } catch e { print(type(e) == TypeError); print(e.context); }\n'
     'var ok = Fiber.new(|a| a); try { ok.call(1, 2); } catch e { print(type(e) == TypeError); }\nprint(ok.call(5));',
     ["true", "Expected 1 parameter but found 0.", "true", "Expected 0 parameters but found 1.", "true", "5"], "ok"),
    ("yield-outside-fiber",
     '{ var a = 1; var b = 2; try { Fiber.yield(7); } catch e { print(type(e) == RuntimeError); print(e.context); } print(a); print(b); }',
     ["true", "Cannot yield from module-level code.", "1", "2"], "ok"),
    ("own-locals-across-interleaving",
     'fn mk(name, start) { return Fiber.new(|| { var n = start; while true { n = n + 1; Fiber.yield(name + String.from(n)); } }); }\n'
     'var a = mk("a", 0); var b = mk("b", 100);\nprint(a.call()); print(b.call()); print(a.call()); print(a.call()); print(b.call());',
     ["a1", "b101", "a2", "a3", "b102"], "ok"),
    ("yield-from-nested-frames",
     'fn deep(n) { if n == 0 { return Fiber.yield("bottom"); } var r = deep(n - 1); return r + String.from(n); }\n'
     'var f = Fiber.new(|| { return deep(3); });\nprint(f.call()); print(f.call("up"));',
     ["bottom", "up123"], "ok"),
    ("fiber-calls-fiber",
     'var inner = Fiber.new(|| { Fiber.yield("i1"); return "i2"; });\n'
     'var outer = Fiber.new(|| { print("o sees " + inner.call()); Fiber.yield("o1"); print("o sees " + inner.call()); return "o2"; });\n'
     'print(outer.call()); print(inner.has_finished()); print(outer.call()); print(inner.has_finished());',
     ["o sees i1", "o1", "false", "o sees i2", "o2", "true"], "ok"),
    ("handlers-survive-suspension",
     'var f = Fiber.new(|| { try { var v = Fiber.yield("in try"); throw v; } catch e { print("fiber caught " + e); } finally { print("fiber fin"); } return "end"; });\n'
     'print(f.call());\ntry { print(f.call("boom")); } catch e { print("main caught " + e); }',
     ["in try", "fiber caught boom", "fiber fin", "end"], "ok"),
    ("main-handler-not-used-for-fiber-throw-after-resume",
     'var f = Fiber.new(|| { Fiber.yield(1); throw "late"; });\nf.call();\ntry { f.call(); } catch e { print("main caught"); }',
     [], ("err", "RuntimeError", "Unhandled exception: late")),
    ("captured-variable-shared-across-fibers",
     'var shared = 0;\nvar inc = Fiber.new(|| { while true { shared = shared + 1; Fiber.yield(shared); } });\n'
     'var dbl = Fiber.new(|| { while true { shared = shared * 2; Fiber.yield(shared); } });\n'
     'print(inc.call()); print(dbl.call()); print(inc.call()); print(dbl.call()); print(shared);',
     ["1", "2", "3", "6", "6"], "ok"),
    ("local-captured-inside-fiber-survives-finish",
     'var get = nil;\nvar f = Fiber.new(|| { var secret = "s"; get = || secret; secret = "s2"; return 1; });\nf.call(); print(get());',
     ["s2"], "ok"),
    ("abandoned-suspended-fiber",
     'fn run() { var f = Fiber.new(|| { var big = [1, 2, 3]; Fiber.yield(big); print("never"); }); return f.call(); }\nprint(run()); print(run());',
     ["[1, 2, 3]", "[1, 2, 3]"], "ok"),
    ("construct-errors",
     'try { Fiber.new(3); } catch e { print(type(e) == TypeError); }\ntry { Fiber.new(); } catch e { print(type(e) == TypeError); }\n'
     'try { Fiber.new(|a, b| a); } catch e { print(type(e) == ValueError); }',
     ["true", "true", "true"], "ok"),
    ("exception-in-flight-survives-a-fiber-started-in-finally",
     'fn cleanup(what) { var f = Fiber.new(|w| { print("cleanup fiber runs for " + w); return "cleaned"; }); return f.call(what); }\n'
     'fn risky() { try { throw "boom-1"; } finally { print("finally: " + cleanup("risky")); } print("BUG: exception lost"); return "returned normally"; }\n'
     'try { print(risky()); } catch e { print("caught " + e); }\n'
     'var worker = Fiber.new(|| { var local = "wl"; try { try { Fiber.yield("suspended in try"); throw "boom-2"; } finally { print("worker finally " + local + ": " + cleanup("worker")); } print("BUG"); } catch e { print("worker caught " + e + " " + local); return "handled"; } return "not handled"; });\n'
     'print(worker.call()); print(worker.call()); print(worker.has_finished());',
     ["cleanup fiber runs for risky", "finally: cleaned", "caught boom-1", "suspended in try", "cleanup fiber runs for worker", "worker finally wl: cleaned",
      "worker caught boom-2 wl", "handled", "true"], "ok"),
    ("exception-in-flight-survives-resuming-another-fiber-in-finally",
     'var helper = Fiber.new(|| { Fiber.yield("h1"); return "h2"; }); helper.call();\n'
     'fn risky() { try { throw "boom"; } finally { print("finally resumes: " + helper.call()); } return "returned normally"; }\n'
     'try { print(risky()); } catch e { print("caught " + e); }',
     ["finally resumes: h2", "caught boom"], "ok"),
    ("return-value-vs-yield-value",
     'var f = Fiber.new(|| { Fiber.yield([1]); return (2,); });\nprint(f.call()); print(f.call()); print(f.has_finished());',
     ["[1]", "(2,)", "true"], "ok"),
    ("closure-from-a-finished-fiber-keeps-its-variables",
     'fn spawn(tag) { var fb = Fiber.new(|| { var n = 40; return || { n = n + 1; return tag + String.from(n); }; }); return fb.call(); }\n'
     'var c1 = spawn("a"); var c2 = spawn("b"); print(c1()); print(c2()); var junk = []; var i = 0; while i < 200 { junk.push([i, "s" + String.from(i)]); i = i + 1; } junk = nil;\n'
     'print(c1()); print(c1()); print(c2());',
     ["a41", "b41", "a42", "a43", "b42"], "ok"),
]


# load_fiber / unload_fiber translated from vm.rs on every run: rejections leave the state untouched, hand-over values, the caller link, both
# designators of the running fiber, and every third fiber untouched, proved of the translated bodies (Props/FnsTie/FiberSwitch)
THEOREM_MODULES.append("Yarel.Props.FnsTie.FiberSwitch")
REQUIRED_THEOREMS += ['load_rejects_finished', 'load_rejects_called', 'load_effect', 'load_first_effect', 'load_isolation', 'load_parks_caller', 'load_target_keeps', 'unload_no_caller', 'unload_effect', 'unload_isolation', 'unload_parks_yielder', 'unload_caller_keeps']


# call_closure / return_impl translated from vm.rs on every run (Props/FnsTie/CallReturn): wrong arity and exhausted call depth are handed to the
# exception machinery and push no frame; a call saves the resume point and pushes a frame at the callee; Return cuts the stack to the frame's base,
# puts the result there and resumes the caller ("calls are atomic"); the last Return of a called fiber hands the result to the caller
THEOREM_MODULES.append("Yarel.Props.FnsTie.CallReturn")
REQUIRED_THEOREMS += ['call_depth_limit', 'return_finishes_fiber']


def interleaving_programs():
    """All interleavings of the calls of two fibers with 2 and 3 steps (enumerated, not sampled). Each fiber yields its step
    index and receives a token; expected output is computed here from the schedule alone."""
    out = []
    for na, nb in ((2, 2), (3, 2), (2, 3), (3, 3)):
        for sched in sorted(set(itertools.permutations("a" * na + "b" * nb))):
            src = ['fn mk(name, n) { return Fiber.new(|first| { var got = first; var i = 0; while i < n - 1 { got = Fiber.yield(name + String.from(i) + ":" + got); i = i + 1; } return name + "end:" + got; }); }',
                   "var a = mk(\"a\", %d); var b = mk(\"b\", %d);" % (na, nb)]
            expected = []
            count = {"a": 0, "b": 0}
            total = {"a": na, "b": nb}
            for k, who in enumerate(sched):
                tok = "t%d" % k
                src.append('print(%s.call("%s"));' % (who, tok))
                i = count[who]
                count[who] += 1
                if i < total[who] - 1:
                    expected.append("%s%d:%s" % (who, i, tok))
                else:
                    expected.append("%send:%s" % (who, tok))
            src.append("print(a.has_finished()); print(b.has_finished());")
            expected += ["true", "true"]
            out.append(("interleave:%s" % "".join(sched), "\n".join(src) + "\n", expected))
    return out


# Every piece of control state a fiber owns x everything another fiber can do meanwhile.  Fiber A is suspended at a point P (inside a
# try block, a catch block, a finally block reached normally / by a pending `return` / by a propagating exception, a loop body, a deep
# call, a method, a closure over locals that change afterwards); before it is resumed the main fiber performs an action Q (a function
# returning through finally, a throw caught, a built-in failure caught, loops, deep calls, another fiber that is itself left suspended in
# a finally with a pending return and finished later).  Oracle 1 (metamorphic, model-free): the lines A prints are the lines it prints
# when Q is "nothing".  Oracle 2: the reference interpreter.  (This grid found F53: the exception-in-flight flag did not travel with its
# fiber - repaired; within ONE fiber the flag is still a single boolean: ledger F35.)
SUSPEND_POINTS = [
    ("in-try", ['try { print("A: in try"); got = Fiber.yield("y"); print("A: after yield " + String.from(got)); throw "A-exc"; } catch e { print("A: caught " + e); }']),
    ("in-catch", ['try { throw "A-exc"; } catch e { got = Fiber.yield("y"); print("A: catch resumed " + e + " " + String.from(got)); }']),
    ("in-finally-normal", ['try { print("A: try"); } finally { got = Fiber.yield("y"); print("A: finally resumed " + String.from(got)); }', 'print("A: after statement");']),
    ("in-finally-return-pending", ['fn fa() { try { return "A-ret"; } finally { got = Fiber.yield("y"); print("A: finally resumed " + String.from(got)); } }', 'print("A: fa returned " + String.from(fa()));']),
    ("in-finally-return-pending-nested", ['fn fb() { try { return "inner-ret"; } finally { got = Fiber.yield("y"); } }',
                                          'fn fa() { try { return "outer " + fb(); } finally { print("A: outer finally " + String.from(got)); } }', 'print("A: fa returned " + String.from(fa()));']),
    ("in-finally-exception-pending", ['try { try { throw "A-exc"; } finally { got = Fiber.yield("y"); print("A: finally resumed " + String.from(got)); } } catch e { print("A: outer caught " + e); }']),
    ("in-loop", ['for x in [1, 2, 3] { if x == 2 { got = Fiber.yield("y"); } print("A: x " + String.from(x)); }', 'var k = 0; while k < 2 { k = k + 1; if k == 1 { Fiber.yield("y2"); } print("A: k " + String.from(k)); }']),
    ("in-deep-call", ['fn d(n) { if n == 0 { got = Fiber.yield("y"); return "deep"; } return d(n - 1) + "!"; }', 'print("A: " + d(5));']),
    ("in-method", ['#[constructor(new)] class M { fn run(self) { self.v = 1; got = Fiber.yield("y"); self.v = self.v + 1; return self.v; } }', 'var m = M.new(); print("A: method " + String.from(m.run()));']),
    ("in-closure", ['var loc = "before"; var cl = || loc; got = Fiber.yield("y"); loc = "after"; print("A: closure " + cl());']),
]
MEANWHILE = [
    ("nothing", []),
    ("return-through-finally", ['fn qa(k) { try { return "value of " + k; } finally { var pad = 1; } }', 'print("B: " + qa("k"));']),
    ("throw-caught", ['try { throw "B-exc"; } catch e { print("B: caught " + e); }']),
    ("builtin-failure-caught", ['try { var z = nil + 1; } catch e { print("B: caught " + String.from(type(e))); }', 'try { [1][9]; } catch e { print("B: caught " + String.from(type(e))); }']),
    ("try-finally-plain", ['try { print("B: try"); } finally { print("B: finally"); }']),
    ("loops-and-calls", ['fn qd(n) { if n == 0 { return 0; } return qd(n - 1) + 1; }', 'var acc = 0; for i in 0..4 { acc = acc + qd(i); } print("B: " + String.from(acc));']),
    ("another-fiber-suspended-the-same-way", ['fn qb() { try { return "C-ret"; } finally { Fiber.yield("c-y"); print("C: finally resumed"); } }',
                                              'var fc = Fiber.new(|| { print("C: got " + qb()); return "C done"; });', 'print("B: " + String.from(fc.call()));']),
    ("nested-try-with-return", ['fn qn() { try { try { throw "inner"; } catch e { return "from catch " + e; } } finally { var pad = 2; } }', 'print("B: " + qn());']),
]


def suspension_grid():
    """-> [(name, source, name of the Q = nothing twin)]"""
    out = []
    for pn, pbody in SUSPEND_POINTS:
        for qn, qbody in MEANWHILE:
            lines = ["var fa_ = Fiber.new(|| {", "    var got = nil;"] + ["    " + l for l in pbody] + ['    print("A: end");', '    return "A done";', "});",
                     'print("main: " + String.from(fa_.call()));']
            lines += qbody
            lines += ['var r_ = fa_.call("resume-token");', 'print("main: " + String.from(r_));',
                      'while !fa_.has_finished() { print("main: " + String.from(fa_.call("again"))); }']
            if qn == "another-fiber-suspended-the-same-way":
                lines += ['print("B: " + String.from(fc.call()));', "print(fc.has_finished());"]
            lines += ['print("main: end");']
            out.append(("suspend:%s/%s" % (pn, qn), "\n".join(lines) + "\n", "suspend:%s/nothing" % pn))
    return out


MODULE_SCENARIOS = [
    ("fibers-keep-the-module-of-their-code", 'import "genmod";\nvar base = 1; var step = 2;\nvar g = genmod.make();\nprint(g.call()); print(g.call()); print(g.call());\nvar m = Fiber.new(|| genmod.Gen.new().run());\nprint(m.call()); print(m.call()); print(m.call());\nvar r = Fiber.new(genmod.reader); print(r.call()); print(r.call()); print(r.call()); print(base); print(genmod.base);\nvar mine = Fiber.new(|| { Fiber.yield(base); Fiber.yield(base + step); base = base + 5; return base; });\nprint(genmod.drive(mine)); print(genmod.drive(mine)); print(genmod.drive(mine)); print(base);\n', {'genmod': 'var base = 100;\nvar step = 10;\nfn counter() { var n = 0; while true { Fiber.yield(base + n * step); n = n + 1; } }\nfn make() { return Fiber.new(counter); }\n#[constructor(new)] class Gen { fn run(self) { Fiber.yield(base); Fiber.yield(base + step); return base + 2 * step; } }\nfn reader() { var seen = []; seen.push(base); Fiber.yield(seen); seen.push(step); Fiber.yield(seen); base = base + 1; return [base, step]; }\nfn drive(f) { var got = f.call(); return [got, base]; }\n'}, ['100', '110', '120', '100', '110', '120', '[100]', '[100, 10]', '[101, 10]', '1', '101', '[1, 101]', '[3, 101]', '[6, 101]', '6']),
]


def check_scenario(res, expected, outcome):
    from props import c08
    return c08.check_scenario(res, expected, outcome)


def correspondence(ctx, model_ok=True):
    rng = ctx.rng.fork("c09")
    failures = []
    broken = []
    n_gen = 9600 if ctx.thorough else 5000
    gen = progs.generated(rng, PROFILES, n_gen)
    scripts = [p for p in progs.corpus_scripts() if "Fiber" in p[1]]
    allp = [(n, s, m) for n, s, m, _ in gen] + scripts
    res, _ = progs.run_programs(ctx.runner, allp, {"events": 1, "quarantine": 1, "gc": "default"}, tag="e")
    mlines, spans = [], []
    n_switch = 0
    with_switch = set()
    for (name, src, mods), r in zip(allp, res):
        evs = r.get("events", []) if isinstance(r, dict) else []
        fl = events.fib_lines(evs)
        sw = len([l for l in fl if l.startswith(("load ", "unload "))])
        n_switch += sw
        if sw:
            with_switch.add(src)
        if any("agree=0" in e for e in evs):
            failures.append({"what": "the two designators of the active fiber disagree after a switch", "program": src, "name": name,
                             "signature": "fiber designators disagree", "failing_input": True})
        spans.append((len(mlines), len(fl), name, src))
        mlines.extend(fl)
    if model_ok and mlines:
        try:
            ans = vlib.run_model("fib", mlines)
            for (start, n, name, src) in spans:
                bad = [(mlines[start + k], ans[start + k]) for k in range(n) if ans[start + k] != "ok"]
                if bad:
                    failures.append({"what": "fiber switching differs from the mechanism model", "program": src, "name": name,
                                     "request": bad[0][0], "model": bad[0][1], "signature": "model-vs-real fibers: " + bad[0][0].split()[0],
                                     "failing_input": False})
        except Exception as e:
            broken.append("model driver fib: %s" % e)
    inter = interleaving_programs()
    if not ctx.thorough:
        inter = [p for k, p in enumerate(inter) if k % 3 == 0]
    scen = [(n, s, {}) for n, s, _, _ in SCENARIOS] + [(n, s, {}) for n, s, _ in inter]
    exp = [(e, o) for _, _, e, o in SCENARIOS] + [(e, "ok") for _, _, e in inter]
    for mode in ({"gc": "default"}, {"gc": "always", "quarantine": 1}):
        sres, _ = progs.run_programs(ctx.runner, scen, mode, tag="s")
        for (name, src, _), r, (e, o) in zip(scen, sres, exp):
            err = check_scenario(r, e, o)
            uaf = r.get("uaf") if isinstance(r, dict) else None
            if err or uaf:
                failures.append({"what": "fiber scenario '%s': %s" % (name, err or uaf), "program": src, "expected": e, "expected_outcome": o,
                                 "observed": progs.canon_step(r), "signature": "scenario " + name.split(":")[0], "failing_input": True})
    # fibers across modules: a fiber runs the code of the module its body was written in, whoever starts or resumes it - after every yield
    # its globals are that module's (same names with other values exist in the resuming module), in plain functions, methods and lambdas
    for mode in ({"gc": "default"}, {"gc": "always", "quarantine": 1}):
        mres, _ = progs.run_programs(ctx.runner, [(n, s_, m) for n, s_, m, _ in MODULE_SCENARIOS], mode, tag="m")
        for (name, src, mods, e), r in zip(MODULE_SCENARIOS, mres):
            c = progs.canon_step(r)
            if c[0] != "ok" or list(c[2]) != e:
                failures.append({"what": "fiber scenario '%s' prints %s (%s), expected %s" % (name, list(c[2]) if len(c) > 2 else c, c[0], e),
                                 "program": src, "modules": mods, "expected": e, "signature": "scenario " + name, "failing_input": True})
    # (c2) suspension points x meanwhile actions
    grid = suspension_grid()
    gres, glines = progs.run_programs(ctx.runner, [(n, src, {}) for n, src, _ in grid], {"gc": "default"}, tag="u")
    a_lines = {}
    for (name, src, twin), r in zip(grid, gres):
        c = progs.canon_step(r)
        a_lines[name] = (c[0], [l for l in (c[2] if len(c) > 2 else ()) if l.startswith(("A:", "main:"))])
    for (name, src, twin), r in zip(grid, gres):
        c = progs.canon_step(r)
        if c[0] != "ok" or a_lines[name] != a_lines[twin]:
            failures.append({"what": "a fiber suspended at %s does not continue as it does undisturbed when the main fiber meanwhile performs '%s': its lines %s, undisturbed %s (%s)"
                                     % (name.split(":")[1].split("/")[0], name.split("/")[1], a_lines[name][1], a_lines[twin][1], c[0]),
                             "program": src, "expected": a_lines[twin][1], "signature": "suspended fiber disturbed: " + name.split(":")[1].split("/")[0], "failing_input": True})
    if model_ok:
        gsd = specdiff.diff(ctx, [(n, src, {}) for n, src, _ in grid], "C09", broken)
        failures += gsd["failures"]
    # (d) whole body inside a fiber called once
    from props import c06
    meta = []
    for body, expected in c06.BODIES:
        meta.append(("in-fiber", "Fiber.new(|| {\n%s\n}).call();\n" % "\n".join("    " + l for l in body), expected))
        meta.append(("in-nested-fiber", "Fiber.new(|| { return Fiber.new(|| {\n%s\n}).call(); }).call();\n" % "\n".join("    " + l for l in body), expected))
    mres, _ = progs.run_programs(ctx.runner, [(n, s, {}) for n, s, _ in meta], {"gc": "default"}, tag="m")
    for (name, src, e), r in zip(meta, mres):
        err = check_scenario(r, e, "ok")
        if err:
            failures.append({"what": "a body run inside a fiber called once prints something else: " + err, "program": src, "expected": e,
                             "signature": "body " + name, "failing_input": True})
    sd = specdiff.diff(ctx, [(n, s, m) for n, s, m, _ in gen] + [("scenario:" + sc[0], sc[1], {}) for sc in SCENARIOS], "C09", broken) if model_ok else {"failures": [], "compared": 0}
    failures += sd["failures"]
    tags = {}
    for _, _, _, tg in gen:
        for t in tg:
            tags[t] = tags.get(t, 0) + 1
    cov = {
        "evaluations": len(allp) + 2 * len(scen) + len(meta) + sd["compared"] + len(grid), "suspension_grid_programs": len(grid),
        "distinct_nontrivial": len(with_switch) + len(scen),
        "rule": "generated fiber programs + repository fiber scripts whose load/unload events are replayed through the model (non-trivial = at "
                "least one switch) + %d scenarios with constructed expected output incl. %d enumerated interleavings of two fibers, in 2 GC modes" % (len(scen), len(inter)),
        "samples": [SCENARIOS[0][1], inter[0][1][:400], mlines[:6]],
        "fiber_switches_replayed": n_switch,
        "traces_validated_against_impl": len(spans),
        "scenarios": len(scen),
        "programs_compared_with_reference_interpreter": sd["compared"],
        "generator_distribution": dict(sorted(tags.items(), key=lambda kv: -kv[1])[:30]),
        "programs": len(allp),
    }
    from props.c08 import dedupe
    return {"failures": dedupe(failures), "coverage": cov, "broken": broken}


def replay(ctx, payload):
    from props import c08
    return c08.replay(ctx, payload)
