"""C08 — exceptions reach the innermost active handler; finally always runs.

Theorems: Yarel.Props.C08 on the handler mechanism (unwind_contract, unwind_selects_innermost, handler_lifo, balanced_region for
every nesting depth, finally_flag, handlers_per_fiber) and Yarel.Props.C04 (verify_sound: in verified code the handler stack at
every instruction is the static one, so every exit path that the verifier accepts leaves it as at entry).
Correspondence:
  (a) every push/pop/unwind event of real runs replayed through the handler model;
  (b) scenarios with constructed expected output covering every clause of the property;
  (c) generated exception programs against the Lean reference interpreter (S).
"""
import json

import vlib
import progs
import events
import specdiff
from gen import shapes

THEOREM_MODULES = ["Yarel.Props.C08", "Yarel.Props.C04", "Yarel.Props.ModelLimits", "Yarel.Props.SpecExceptions", "Yarel.Props.FnsTie.HandlerSteps"]
REQUIRED_THEOREMS = ["vm_unwind_contract", "vm_unwind_uncaught", "vm_push_handler_effect", "vm_pop_handler_effect", "vm_jump_finally_effect",
                     "vm_end_finally_pending_return", "vm_end_finally_nothing_pending", "vm_end_finally_rethrows_uncaught", "vm_throw_effect",
                     "throw_reaches_innermost_handler", "throw_enters_catch", "completion_enters_finally", "completion_in_catch_enters_finally",
                     "normal_end_of_try_enters_finally", "finally_end_resumes", "finally_end_rethrows", "throw_leaves_call",
                     "uncaught_at_fiber_bottom_ends_run", "unwind_contract", "unwind_uncaught", "handler_lifo", "unwind_selects_innermost", "balanced_region",
                     "finally_flag", "handlers_per_fiber", "verify_sound"]
# the statement compilers translated from compiler.rs on every run (Props/FnsTie/Statements): what try / return / throw emit around their
# recursive calls, in order and with their arguments, and where the in_try_block flag is raised and lowered
THEOREM_MODULES.append("Yarel.Props.FnsTie.Statements")
REQUIRED_THEOREMS += ["emit_return_skeleton", "return_statement_skeleton", "throw_statement_skeleton", "try_statement_skeleton",
                      "try_statement_no_clause", "try_flag_brackets_the_try_block"]
# who writes the state the mechanism models are about: the set of write sites per group of fields, regenerated on every run (Props/StateWrites)
THEOREM_MODULES.append("Yarel.Props.StateWrites.writers_of_exception_state")
REQUIRED_THEOREMS += ['writers_of_exception_state']
LEVEL = "proof"
ASSUMPTIONS = [
    "handler mechanism model Yarel/Model/Handlers.lean transcribes unwind_stack/push/pop/jump_finally/end_finally (tie: event replay)",
    "that compiled code brackets its handlers is established per function by the C04 verifier, not proved for the compiler",
    "source-level semantics (finally exactly once on every exit path) is tied to the implementation by constructed-oracle scenarios and the "
    "reference interpreter, with the open findings F13, F14, F23, F25, F26, F27 excluded from generated programs",
]
PROFILES = ["exceptions", "fibers", "classes", "iteration"]

# (name, source, expected printed lines, expected outcome: "ok" | ("err", kind, first message))
SCENARIOS = [
    # the handler of an OUTER activation of the function that is also running deeper: the deeper activations are discarded and the catch
    # block runs with the variables of the activation that installed it (recursion through try blocks in functions and methods, rethrowing
    # catch blocks, finally blocks per activation)
    ("handler-of-an-outer-activation-of-the-same-function", 'fn f(n) { var mine = "level " + String.from(n); if n == 0 { throw "bottom"; } try { f(n - 1); print(mine + ": no exception"); } catch e { print(mine + ": caught " + e); } return n; }\nprint(f(1)); print(f(3));\nfn g(n) { var mine = n * 10; try { if n == 0 { throw "deep"; } return g(n - 1) + 1; } catch e { if n < 2 { throw e + "!"; } print(String.from(mine) + " got " + e); return 100; } }\nprint(g(3));\n#[constructor(new)] class R { fn walk(self, n) { var tag = "w" + String.from(n); try { if n == 0 { nil + 1; } return self.walk(n - 1); } catch e { print(tag + " " + String.from(type(e) == TypeError)); if n < 2 { throw e; } return tag; } } }\nprint(R.new().walk(3));\nfn h(n) { var keep = [n]; try { if n > 0 { h(n - 1); } throw "x" + String.from(n); } catch e { print(String.from(keep[0]) + " " + e); } finally { print("fin " + String.from(keep[0])); } }\nh(2);\n', ['level 1: caught bottom', '1', 'level 1: caught bottom', 'level 2: no exception', 'level 3: no exception', '3', '20 got deep!!', '101', 'w0 true', 'w1 true', 'w2 true', 'w2', '0 x0', 'fin 0', '1 x1', 'fin 1', '2 x2', 'fin 2'], "ok"),
    ("nested-handler-survives-inner-catch",
     'try { try { throw "a"; } catch e { print("inner " + e); } throw "b"; } catch e { print("outer " + e); }',
     ["inner a", "outer b"], "ok"),
    ("return-in-try-returns",
     'fn f() { try { return "r"; } catch e { print("c"); } print("after"); return "fallthrough"; } print(f());',
     ["r"], "ok"),
    ("finally-once-on-every-path",
     'fn g(k) { try { if k == 0 { return "ret"; } if k == 1 { throw "exc"; } print("body"); } finally { print("fin"); } return "end"; }\n'
     'print(g(2)); print(g(0)); try { g(1); } catch e { print("caught " + e); }',
     ["body", "fin", "end", "fin", "ret", "fin", "caught exc"], "ok"),
    ("builtin-failure-is-instance-of-its-class",
     'try { nil + 1; } catch e { print(type(e) == TypeError); print(e.derives(Error)); print(e.context); }\n'
     'try { [1][3]; } catch e { print(type(e) == IndexError); }\n'
     'try { nosuch; } catch e { print(type(e) == NameError); }\n'
     'try { 1.nosuch; } catch e { print(type(e) == AttributeError); }\n'
     'try { "a".find("", 0); } catch e { print(type(e) == ValueError); }\n'
     'try { import "nosuchmodule"; } catch e { print(type(e) == ImportError); }',
     ["true", "true", "Binary operands must be two numbers or two strings.", "true", "true", "true", "true", "true"], "ok"),
    ("callee-depth-3-locals-intact",
     'fn a() { throw "deep"; } fn b() { var bl = "B"; a(); print(bl); } fn c() { var local = "L"; var other = [1, 2]; try { b(); } catch e { print(local + e); print(other); } } c();',
     ["Ldeep", "[1, 2]"], "ok"),
    ("left-try-is-inactive",
     'try { print("t"); } catch e { print("no"); }\ntry { throw "x"; } catch e2 { print("second " + e2); }\n'
     'fn f() { try { return 1; } catch e { print("no"); } } f();\ntry { throw "y"; } catch e3 { print("third " + e3); }',
     ["t", "second x", "third y"], "ok"),
    ("finally-that-switches-fibers-while-an-exception-propagates",
     'var helper = Fiber.new(|| { Fiber.yield(1); return 2; });\nfn risky() { try { throw "boom"; } finally { print(helper.call()); } }\ntry { risky(); print("not here"); } catch e { print("caught " + e); }\nfn risky2() { try { throw "bang"; } finally { print(helper.call()); print(helper.has_finished()); } }\ntry { risky2(); print("not here"); } catch e { print("second caught " + e); }\n',
     ["1", "caught boom", "2", "true", "second caught bang"], "ok"),
    ("uncaught-names-value",
     'print("before"); throw "unc";', ["before"], ("err", "RuntimeError", "Unhandled exception: unc")),
    ("uncaught-error-instance-keeps-class",
     'var x = nil + 1;', [], ("err", "TypeError", "Unhandled TypeError: Binary operands must be two numbers or two strings.")),
    ("catch-then-finally-order",
     'try { throw "e"; } catch x { print("c"); } finally { print("f"); } print("after");',
     ["c", "f", "after"], "ok"),
    ("propagates-through-finally",
     'try { try { throw "p"; } finally { print("f1"); } print("not here"); } catch e { print("got " + e); }',
     ["f1", "got p"], "ok"),
    ("rethrow",
     'try { try { throw "r"; } catch e { throw e; } } catch e2 { print("re " + e2); }',
     ["re r"], "ok"),
    ("same-fiber-only",
     'var f = Fiber.new(|| { throw "in fiber"; });\ntry { f.call(); } catch e { print("caller caught"); }\nprint("after");',
     [], ("err", "RuntimeError", "Unhandled exception: in fiber")),
    ("handler-inside-fiber",
     'var f = Fiber.new(|| { try { throw "in fiber"; } catch e { print("fiber caught " + e); } return "fin"; });\nprint(f.call());',
     ["fiber caught in fiber", "fin"], "ok"),
    ("method-and-closure-throw",
     '#[constructor(new)] class K { fn m(self) { var f = || { throw "lam"; }; f(); } }\ntry { K.new().m(); } catch e { print("m " + e); }',
     ["m lam"], "ok"),
    ("finally-after-normal-inside-loop",
     'for i in 0..3 { try { print(i); } finally { print("f" + String.from(i)); } }',
     ["0", "f0", "1", "f1", "2", "f2"], "ok"),
    ("exception-in-loop-caught-outside",
     'try { for i in 0..3 { if i == 1 { throw "at1"; } print(i); } } catch e { print(e); } print("next");\nfor j in 0..2 { print(j); }',
     ["0", "at1", "next", "0", "1"], "ok"),
    ("two-levels-of-finally",
     'fn f() { try { try { throw "z"; } finally { print("in"); } } finally { print("out"); } }\ntry { f(); } catch e { print("top " + e); }',
     ["in", "out", "top z"], "ok"),
    ("native-callback-error",
     'try { [1, 2].iter().map(|v| v + nil).collect(); } catch e { print(type(e) == TypeError); }',
     ["true"], "ok"),
    ("stack-overflow-is-catchable",
     'fn r(n) { return r(n + 1); }\ntry { r(0); } catch e { print(type(e) == IndexError); print(e.context); }',
     ["true", "Stack overflow."], "ok"),
    ("uncaught-through-callers-finally",
     'fn thrower() {\n  throw "x";\n}\nfn mid() {\n  try {\n    thrower();\n  } finally {\n    print("fin");\n  }\n}\nmid();',
     ["fin"], ("err", "RuntimeError", "Unhandled exception: x")),
    ("uncaught-builtin-failure-after-a-caught-throw",
     'fn thrower() {\n  throw "x";\n}\ntry { thrower(); } catch e { print("caught"); }\nvar z = nil + 1;',
     ["caught"], ("err", "TypeError", "Unhandled TypeError: Binary operands must be two numbers or two strings.")),
    ("return-after-a-nested-try-statement-still-runs-finally",
     'fn parse(x) { try { try { if x == 0 { throw "inner"; } } catch e { print("inner caught"); } return "ret " + String.from(x); } finally { print("parse: finally"); } }\n'
     'print(parse(1)); print(parse(0)); try { throw "late"; } catch e { print("caught: " + e); }',
     ["parse: finally", "ret 1", "inner caught", "parse: finally", "ret 0", "caught: late"], "ok"),
    ("return-between-two-sibling-try-statements",
     'fn f(k) { try { try { print("a"); } finally { print("fa"); } if k == 1 { return "mid"; } try { print("b"); } catch e { print("no"); } return "end"; } finally { print("outer fin"); } }\n'
     'print(f(1)); print(f(2));',
     ["a", "fa", "outer fin", "mid", "a", "fa", "b", "outer fin", "end"], "ok"),
    ("catch-variable-scoped",
     'var e = "outer"; try { throw "t"; } catch e { print(e); } print(e);',
     ["t", "outer"], "ok"),
]

# every kind of built-in failure, raised two calls deep inside a try: the innermost handler gets an instance of the stated class, the
# caller's finally runs, and the program continues
BUILTIN_FAILURES = [
    ("nil + 1", "TypeError"), ("1 - \"a\"", "TypeError"), ("\"a\" * 2", "TypeError"), ("1 / nil", "TypeError"), ("true % 2", "TypeError"),
    ("1 & \"x\"", "TypeError"), ("nil | 1", "TypeError"), ("1 ^ nil", "TypeError"), ("1 << \"s\"", "TypeError"), ("nil >> 1", "TypeError"),
    ("1 < \"2\"", "TypeError"), ("nil > 1", "TypeError"), ("1 <= nil", "TypeError"), ("\"a\" >= 1", "TypeError"), ("-\"s\"", "TypeError"), ("~nil", "TypeError"),
    ("\"a\" + 1", "TypeError"), ("nil[0]", "TypeError"), ("5[0]", "TypeError"), ("{\"a\": 1}[0]", "TypeError"), ("K.new()[0]", "TypeError"), ("(|| 1)[0]", "TypeError"),
    ("[1][5]", "IndexError"), ("[1][-2]", "IndexError"), ("(1, 2)[2]", "IndexError"), ("\"abc\"[3]", "IndexError"), ("\"é\"[1]", "IndexError"), ("[1, 2][3..4]", "IndexError"),
    ("[1][0.5]", "ValueError"), ("[1][(0/0)]", "ValueError"), ("\"a\"[1.5]", "ValueError"), ("[1][nil]", "TypeError"), ("[1][\"0\"]", "TypeError"),
    ("1..\"a\"", "TypeError"), ("nil..2", "TypeError"), ("1..2.5", "ValueError"),
    ("nil()", "TypeError"), ("5(1)", "TypeError"), ("\"s\"()", "TypeError"), ("K.new()()", "TypeError"), ("two(1)", "TypeError"), ("two(1, 2, 3)", "TypeError"),
    ("K.new().m(1)", "TypeError"), ("undefined_global", "NameError"), ("K.new().nosuch", "AttributeError"), ("K.new().nosuch()", "AttributeError"),
    ("nil.x", "AttributeError"), ("5.nosuch()", "AttributeError"), ("\"s\".nosuch", "AttributeError"), ("K.nosuch()", "AttributeError"),
    ("\"a\".len(1)", "TypeError"), ("\"a\".find(1, 0)", "TypeError"), ("\"a\".find(\"\", 0)", "ValueError"), ("\"a\".find(\"a\", 9)", "IndexError"),
    ("\"a\".char_byte_index(5)", "IndexError"), ("\"x\".to_num()", "ValueError"), ("String.from_utf8([255])", "ValueError"), ("String.from_ascii([300])", "ValueError"),
    ("String.from_code_points([1114112])", "ValueError"), ("[].pop()", "RuntimeError"), ("[1].push()", "TypeError"), ("{}.get([1])", "ValueError"),
    ("{}.insert([], 1)", "ValueError"), ("{[1]: 2}", "ValueError"), ("{}.get()", "TypeError"), ("Fiber.new(3)", "TypeError"), ("Fiber.new(|a, b| a)", "ValueError"),
    ("Fiber.yield(1)", "RuntimeError"), ("done_fiber.call()", "RuntimeError"), ("Fiber.new(|a| a).call()", "TypeError"), ("[1, 2].iter().map(|v| v + nil).collect()", "TypeError"),
    ("[1, 2].iter().reduce(|a| a, 0)", "TypeError"), ("host_raise(\"ImportError\", \"h\")", "ImportError"), ("host_raise(\"NameError\", \"h\")", "NameError"),
    ("deep_recursion(0)", "IndexError"), ("1.derives()", "TypeError"), ("type()", "TypeError"), ("print(1, 2)", "TypeError"),
]
BUILTIN_STATEMENTS = [
    ("var q = 5; q.x = 1;", "AttributeError"), ("var v = (1, 2); v[0] = 3;", "TypeError"), ("var s = \"abc\"; s[0] = \"x\";", "TypeError"), ("var v = [1]; v[3] = 1;", "IndexError"),
    ("var v = [1]; v[0.5] = 1;", "ValueError"), ("import \"no_such_module\";", "ImportError"), ("import \"bad_syntax_module\";", "ImportError"),
    ("var NotC = 3; #[derive(NotC)] class Bad {}", "RuntimeError"), ("for x in 5 { }", "AttributeError"), ("for x in K.new() { }", "AttributeError"),
    ("undefined_global2 = 1;", "NameError"), ("var m = 1; m += nil;", "TypeError"),
]


def builtin_failure_program():
    lines = ["#[constructor(new)] class K { fn m(self) { return 1; } }", "fn two(a, b) { return a; }", "fn deep_recursion(n) { return deep_recursion(n + 1); }",
             "var done_fiber = Fiber.new(|| 1); done_fiber.call();", "var fins = 0;"]
    expected = []
    n = 0
    for src, cls in [(e, c) for e, c in BUILTIN_FAILURES] + [(None, None)]:
        if src is None:
            break
        n += 1
        lines.append("fn inner%d() { var local = \"L%d\"; var z = %s; return local; }" % (n, n, src))
        lines.append("fn outer%d() { try { return inner%d(); } finally { fins = fins + 1; } }" % (n, n))
        lines.append("try { print(outer%d()); print(\"no error %d\"); } catch e { print(\"%d \" + String.from(type(e) == %s) + \" \" + String.from(e.derives(Error))); }" % (n, n, n, cls))
        expected.append("%d true true" % n)
    for src, cls in BUILTIN_STATEMENTS:
        n += 1
        lines.append("fn inner%d() { var local = \"L%d\"; %s return local; }" % (n, n, src))
        lines.append("fn outer%d() { try { return inner%d(); } finally { fins = fins + 1; } }" % (n, n))
        lines.append("try { print(outer%d()); print(\"no error %d\"); } catch e { print(\"%d \" + String.from(type(e) == %s) + \" \" + String.from(e.derives(Error))); }" % (n, n, n, cls))
        expected.append("%d true true" % n)
    lines.append("print(fins);")
    expected.append(str(n))
    return "\n".join(lines) + "\n", expected, {"bad_syntax_module": "var = ;\n"}


AFTERMATH = [
    # (setup, failing statement, observation afterwards): a failed operation leaves nothing behind - the same in every build
    ("", "undeclared_a = 1;", "try { print(undeclared_a); } catch e2 { print(type(e2)); } try { undeclared_a = 2; } catch e3 { print(type(e3)); } try { print(undeclared_a); } catch e4 { print(type(e4)); }"),
    ("", "undeclared_b += 1;", "try { print(undeclared_b); } catch e2 { print(type(e2)); }"),
    ("var v = [1];", "v[3] = 1;", "print(v); print(v.len());"),
    ("var v = [1, 2];", "v[0.5] = 9;", "print(v);"),
    ("var v = [];", "v.pop();", "print(v); v.push(1); print(v.pop()); print(v);"),
    ("var v = [1];", "v.push();", "print(v);"),
    ("var m = {1: 2};", "m.insert([], 1);", "print(m.len()); print(m.keys());"),
    ("var m = {1: 2};", "m.insert((1, [2]), 1);", "print(m.len());"),
    ("var m = {};", "var z = {1: 1, [2]: 2};", "print(m.len());"),
    ("#[constructor(new)] class P {} var o = P.new();", "o.missing();", "o.f = 1; print(o.f);"),
    ("var q = 5;", "q.x = 1;", "print(q);"),
    ("", "import \"no_such_module\";", "try { print(no_such_module); } catch e2 { print(type(e2)); }"),
    ("", "import \"bad_syntax_module\";", "try { print(bad_syntax_module); } catch e2 { print(type(e2)); } try { import \"bad_syntax_module\"; } catch e3 { print(type(e3)); }"),
    ("var NotC = 3;", "#[derive(NotC)] class Bad {}", "try { print(Bad); } catch e2 { print(type(e2)); } class Good { #[static] fn s() { return 1; } } print(Good.s());"),
    ("fn two(a, b) { return a; }", "two(1);", "print(two(1, 2));"),
    ("var fb = Fiber.new(|a| a);", "fb.call();", "print(fb.has_finished()); print(fb.call(7)); print(fb.has_finished());"),
    ("var fb = Fiber.new(|| { Fiber.yield(1); return 2; }); fb.call();", "fb.call(1, 2);", "print(fb.call()); print(fb.has_finished());"),
    ("var s = \"abc\";", "s[0] = \"x\";", "print(s);"),
    ("var t = (1, 2);", "t[0] = 3;", "print(t);"),
    ("var it = [1, 2].iter();", "it.next(1);", "print(it.next()); print(it.next());"),
    ("var r = 0;", "for x in 5 { r = r + 1; }", "print(r);"),
    ("var n = 1;", "n += nil;", "print(n);"),
]


def aftermath_program():
    lines = []
    for k, (setup, stmt, after) in enumerate(AFTERMATH):
        lines.append("{ %s try { %s print(\"no error %d\"); } catch e { print(\"%d \" + String.from(type(e))); } %s }" % (setup, stmt, k, k, after))
    return "\n".join(lines) + "\n", {"bad_syntax_module": "var = ;\n"}


# open findings: kept as corpus replays with their expected (property-conforming) output
KNOWN_SCENARIOS = [
    ("F13-break-out-of-try", 'fn f() { for i in 0..3 { try { if i == 1 { break; } print(i); } catch e { print("stale catch " + e); } } }\nf();\nthrow "later";',
     ["0"], ("err", "RuntimeError", "Unhandled exception: later")),
    ("F14-throw-in-catch-runs-finally", 'try { try { throw "a"; } catch e { throw "b"; } finally { print("fin"); } } catch e2 { print(e2); }',
     ["fin", "b"], "ok"),
    ("F23-locals-in-finally", 'fn f() { try { throw "x"; } finally { var l = "local"; print(l); } }\ntry { f(); } catch e { print(e); }',
     ["local", "x"], "ok"),
    ("F27-return-in-nested-try", 'fn f() { try { try { return "r"; } finally { print("in"); } } finally { print("out"); } }\nprint(f());\ntry { throw "later"; } catch e { print("ok " + e); }',
     ["in", "out", "r", "ok later"], "ok"),
    ("F25-throw-in-finally-after-return", 'fn f() { try { return 5; } finally { throw "x"; } }\ntry { f(); } catch e { print(e); }\nfn g() { try { print("g"); } finally { print("gf"); } return 1; }\nprint(g());',
     ["x", "g", "gf", "1"], "ok"),
    ("F35-handled-exception-inside-finally-cancels-the-one-in-flight",
     'fn cleanup() { try { nil + 1; } catch e { return "cleaned"; } }\nfn risky() { try { throw "boom"; } finally { print(cleanup()); } return "returned normally"; }\ntry { print(risky()); } catch e { print("caught " + e); }',
     ["cleaned", "caught boom"], "ok"),
    ("F39-return-break-continue-in-catch-skip-finally",
     'fn rc() { try { throw 1; } catch e { return "catch"; } finally { print("fin"); } return "after"; }\nprint(rc());\n'
     'for i in 0..2 { try { throw i; } catch e { if e == 0 { continue; } break; } finally { print("loop fin " + String.from(i)); } }\nprint("end");',
     ["fin", "catch", "loop fin 0", "loop fin 1", "end"], "ok"),
    ("F49-call-returning-through-finally-inside-a-finally-block",
     'fn g() { try { return [9]; } finally { } }\nfn f() { try { return [1]; } finally { g(); } print("fell through"); }\nprint(f());',
     ["[1]"], "ok"),
    ("F26-return-in-finally-after-throw", 'fn g() { try { throw 1; } finally { return 2; } }\nprint(g());\nfn h() { try { print("h"); } finally { print("hf"); } return 3; }\nprint(h());',
     ["2", "h", "hf", "3"], "ok"),
]


def check_scenario(res, expected, outcome):
    c = progs.canon_step(res)
    if c[0] == "crash":
        return "process died: %s" % c[1]
    if c[0] == "panic":
        return "panic: %s" % c[1]
    printed = list(c[2])
    if printed != expected:
        return "printed %s, expected %s" % (printed, expected)
    if outcome == "ok":
        if c[0] != "ok":
            return "ended with %s %s %s, expected a normal end" % (c[0], c[1], list(c[3])[:1])
    else:
        _, kind, msg = outcome
        if c[0] != "err" or c[1] != kind or not c[3] or c[3][0] != msg:
            return "ended with %s %s %s, expected %s: %s" % (c[0], c[1], list(c[3])[:1], kind, msg)
    return None


def correspondence(ctx, model_ok=True):
    rng = ctx.rng.fork("c08")
    failures = []
    broken = []
    n_gen = 9000 if ctx.thorough else 5000
    gen = progs.generated(rng, PROFILES, n_gen)
    scripts = progs.corpus_scripts()
    allp = [(n, s, m) for n, s, m, _ in gen] + scripts
    # (a) event replay
    res, _ = progs.run_programs(ctx.runner, allp, {"events": 1, "quarantine": 1, "gc": "default"}, tag="e")
    mlines, spans = [], []
    n_push = n_unwound = 0
    with_handlers = set()
    for (name, src, mods), r in zip(allp, res):
        evs = r.get("events", []) if isinstance(r, dict) else []
        el = events.exc_lines(evs)
        n_push += len([l for l in el if l.startswith("push ")])
        u = len([l for l in el if l.startswith("unwound ")])
        n_unwound += u
        if u:
            with_handlers.add(src)
        spans.append((len(mlines), len(el), name, src))
        mlines.extend(el)
    if model_ok and mlines:
        try:
            ans = vlib.run_model("exc", mlines)
            for (start, n, name, src) in spans:
                bad = [(mlines[start + k], ans[start + k]) for k in range(n) if ans[start + k] != "ok"]
                if bad:
                    failures.append({"what": "exception-handler bookkeeping differs from the mechanism model", "program": src, "name": name,
                                     "request": bad[0][0], "model": bad[0][1], "signature": "model-vs-real handlers: " + bad[0][1].split()[0] + " " + bad[0][0].split()[0],
                                     "failing_input": False})
        except Exception as e:
            broken.append("model driver exc: %s" % e)
    # (b) scenarios, in default and stress-GC modes; known ones from the ledger too
    scen = [(n, s, {}) for n, s, _, _ in SCENARIOS] + [(n, s, {}) for n, s, _, _ in KNOWN_SCENARIOS]
    exp = [(e, o) for _, _, e, o in SCENARIOS] + [(e, o) for _, _, e, o in KNOWN_SCENARIOS]
    for mode in ({"gc": "default"}, {"gc": "always", "quarantine": 1}):
        sres, _ = progs.run_programs(ctx.runner, scen, mode, tag="s")
        for (name, src, _), r, (e, o) in zip(scen, sres, exp):
            err = check_scenario(r, e, o)
            uaf = r.get("uaf") if isinstance(r, dict) else None
            if err or uaf:
                failures.append({"what": "exception scenario '%s': %s" % (name, err or uaf), "program": src, "expected": e, "expected_outcome": o,
                                 "observed": progs.canon_step(r), "signature": "scenario " + name, "failing_input": True})
    # every kind of built-in failure is delivered to the innermost handler as an instance of its class
    bsrc, bexp, bmods = builtin_failure_program()
    for mode in ({"gc": "default"}, {"gc": "always", "quarantine": 1}):
        bres, _ = progs.run_programs(ctx.runner, [("builtin-failures", bsrc, bmods)], mode, steps_budget=50000000, tag="b")
        c = progs.canon_step(bres[0])
        printed = list(c[2]) if len(c) > 2 else []
        if c[0] != "ok" or printed != bexp:
            k = next((i for i in range(min(len(printed), len(bexp))) if printed[i] != bexp[i]), min(len(printed), len(bexp)))
            which = (BUILTIN_FAILURES + BUILTIN_STATEMENTS)[k] if k < len(BUILTIN_FAILURES) + len(BUILTIN_STATEMENTS) else ("finally count", "")
            failures.append({"what": "built-in failure `%s` (expected %s) is not delivered to the innermost handler as an instance of its class: got %r (run ended %s %s)" % (
                which[0], which[1], printed[k:k + 1], c[0], list(c[3])[:1] if len(c) > 3 else ""),
                "program": bsrc, "modules": bmods, "expected": bexp, "signature": "builtin failure not caught: " + str(which[0])[:40], "failing_input": True})
    # (c) reference interpreter
    sd = specdiff.diff(ctx, [(n, s, m) for n, s, m, _ in gen] + [("scenario:" + sc[0], sc[1], {}) for sc in SCENARIOS] + [("scenario:aftermath",) + aftermath_program()] + [(n, s, {}) for n, s in shapes.all_shapes()], "C08", broken) if model_ok else {"failures": [], "compared": 0}
    failures += sd["failures"]
    tags = {}
    for _, _, _, tg in gen:
        for t in tg:
            tags[t] = tags.get(t, 0) + 1
    cov = {
        "evaluations": len(allp) + 2 * len(scen) + sd["compared"],
        "distinct_nontrivial": len(with_handlers),
        "rule": "generated programs (profiles %s) + repository scripts with handler events replayed through the model; non-trivial = distinct "
                "program in which at least one unwinding selected a handler; plus %d constructed-oracle scenarios x 2 GC modes" % (",".join(PROFILES), len(scen)),
        "samples": [SCENARIOS[2][1], mlines[:6]],
        "handler_pushes": n_push, "unwinds_into_a_handler": n_unwound,
        "traces_validated_against_impl": len(spans),
        "scenarios": len(scen),
        "programs_compared_with_reference_interpreter": sd["compared"],
        "generator_distribution": dict(sorted(tags.items(), key=lambda kv: -kv[1])[:30]),
        "programs": len(allp),
    }
    return {"failures": dedupe(failures), "coverage": cov, "broken": broken}


def dedupe(failures):
    out = {}
    for f in failures:
        out.setdefault(f["signature"], f)
    return list(out.values())


def replay(ctx, payload):
    if "expected" in payload:
        r, _ = progs.run_programs(ctx.runner, [("r", payload["program"], {})], {"gc": "default"})
        o = payload.get("expected_outcome", "ok")
        err = check_scenario(r[0], payload["expected"], tuple(o) if isinstance(o, list) else o)
        return err is None, err or "as expected"
    if "program" in payload:
        return specdiff.replay(ctx, payload)
    return False, "nothing to replay"
