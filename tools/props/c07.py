"""C07 — classes: construction, fields, dispatch, inheritance, super, static.

Theorems: Yarel.Props.C07 on the class-table model (copy_down_is_nearest, rebinding_irrelevant, fields_first, invoke_eq_get_call for every
receiver, bound_keeps_receiver, super_static, static_self, ctor_returns_instance, errors_classified; the statements that are false of the
code - static methods are not inherited through the class value, copy-down for metaclass objects - are proved false with witnesses).
Correspondence: class hierarchies (depth <= 4) answered by the class-table model ('which class's body runs for C.m / C::m') against the
implementation; scenarios with constructed expected output for every clause of the property; the metamorphic pair invoke vs get-then-call;
generated class programs against the Lean reference interpreter.
"""
import json

import vlib
import progs
import specdiff

THEOREM_MODULES = ["Yarel.Props.C07", "Yarel.Props.SpecClasses"]
REQUIRED_THEOREMS = ["field_shadows_method_invoke", "field_shadows_method_get", "invoke_calls_class_method", "get_binds_class_method",
                     "bound_call_eq_invoke", "missing_member_is_attribute_error", "copy_down_is_nearest", "rebinding_irrelevant", "fields_first", "invoke_eq_get_call", "bound_keeps_receiver",
                     "super_static", "static_self", "ctor_returns_instance", "errors_classified"]
# the state the models abstract is all the state there is: the fields of the run-time structures, regenerated on every run, are the ones
# the models were written against (Props/StateInventory)
THEOREM_MODULES.append("Yarel.Props.StateInventory.state_of_classes")
REQUIRED_THEOREMS += ['state_of_classes']
# who writes the state the mechanism models are about: the set of write sites per group of fields, regenerated on every run (Props/StateWrites)
THEOREM_MODULES.append("Yarel.Props.StateWrites.writers_of_class_tables")
REQUIRED_THEOREMS += ['writers_of_class_tables']
# the class-table functions and the property / invoke / super paths as written on this run (Props/GlueText)
THEOREM_MODULES.append("Yarel.Props.GlueText.C07")
REQUIRED_THEOREMS += ['bind_method_as_modelled', 'declare_class_impl_as_modelled', 'define_class_impl_as_modelled', 'define_method_as_modelled', 'get_property_impl_as_modelled', 'get_super_impl_as_modelled', 'inherit_impl_as_modelled', 'invoke_as_modelled', 'invoke_from_class_as_modelled', 'invoke_impl_as_modelled', 'set_property_impl_as_modelled', 'static_method_impl_as_modelled', 'super_invoke_impl_as_modelled']
LEVEL = "proof"
ASSUMPTIONS = [
    "class-table model Yarel/Model/ClassTable.lean transcribes declare/inherit/method/define and the property/invoke/super paths of vm.rs "
    "(tie: hierarchy queries + scenarios)",
    "how the compiler captures `super` and compiles constructors is tied by scenarios and the reference interpreter only",
]

SCENARIOS = [
    ("super-in-static-methods-keeps-the-class",
     '#[constructor(new)]\nclass Shape {\n  #[static]\n  fn create() {\n    return Self.new();\n  }\n  #[static]\n  fn which() {\n    return Self;\n  }\n  fn describe(self) {\n    return "shape";\n  }\n}\n#[constructor(new), derive(Shape)]\nclass Circle {\n  #[static]\n  fn create() {\n    var c = super.create();\n    c.r = 1;\n    return c;\n  }\n  #[static]\n  fn which() {\n    return super.which();\n  }\n  fn describe(self) {\n    return "circle r=${self.r}";\n  }\n}\ntry {\n  print(Circle.create().describe());\n}\ncatch e {\n  print("create failed: " + e.context);\n}\nprint(Circle.which());\n#[constructor(new)]\nclass Node {\n  #[static]\n  fn which() {\n    return Self;\n  }\n  #[static]\n  fn build() {\n    return Self.new();\n  }\n  fn kind(self) {\n    return "node";\n  }\n}\n#[constructor(new)]\nclass Registry {\n  fn make_leaf_class(self) {\n    #[constructor(new), derive(Node)]\n    class Leaf {\n      #[static]\n      fn which() {\n        return super.which();\n      }\n      #[static]\n      fn build() {\n        return super.build();\n      }\n      fn kind(self) {\n        return "leaf";\n      }\n    }\n    return Leaf;\n  }\n  fn kind(self) {\n    return "registry";\n  }\n}\nvar Leaf = Registry.new().make_leaf_class();\nprint(Leaf.which());\nprint(Leaf.build().kind());',
     ["circle r=1", "<class Circle>", "<class Leaf>", "leaf"]),
    ("constructor-and-derives-taken-as-values-stay-bound",
     'class Account {\n  #[constructor]\n  fn open(self, owner, balance) {\n    self.owner = owner;\n    self.balance = balance;\n  }\n  fn show(self) {\n    return "${self.owner}: ${self.balance}";\n  }\n}\nvar acct = Account.open("ann", 10);\nvar r1 = acct.open("ann", 20);\nprint(r1 == acct);\nprint(acct.show());\nvar reopen = acct.open;\nvar r2 = reopen("ann", 30);\nprint(r2 == acct);\nprint(acct.show());\nclass Temperature {\n  #[constructor]\n  fn celsius(self, c) {\n    self.c = c;\n  }\n  #[constructor]\n  fn fahrenheit(self, f) {\n    var init = self.celsius;\n    init((f - 32) * 5 / 9);\n  }\n}\ntry {\n  print(Temperature.fahrenheit(212).c);\n}\ncatch e {\n  print("lost initialisation: " + e.context);\n}\nvar is_a = acct.derives;\nprint(is_a(Account));',
     ["true", "ann: 20", "true", "ann: 30", "100", "true"]),
    ("fields-first-then-nearest-method",
     '#[constructor(new)] class A { fn m(self) { return "A.m"; } fn n(self) { return "A.n"; } }\n#[constructor(new), derive(A)] class B { fn m(self) { return "B.m"; } }\n'
     '#[constructor(new), derive(B)] class C { fn n(self) { return "C.n"; } }\nvar c = C.new(); print(c.m()); print(c.n()); var b = B.new(); print(b.m()); print(b.n());\n'
     'c.m = |x| "field"; print(c.m(1)); print(C.new().m());',
     ["B.m", "C.n", "B.m", "A.n", "field", "B.m"]),
    ("method-value-stays-bound",
     '#[constructor(new)] class K { fn who(self) { return self.name; } }\nvar a = K.new(); a.name = "a"; var b = K.new(); b.name = "b";\n'
     'var f = a.who; b.f = f; print(f()); print(b.f()); var v = [a.who, b.who]; print(v[1]()); print(v[0]());',
     ["a", "a", "b", "a"]),
    ("invoke-equals-get-then-call",
     '#[constructor(new)] class K { fn m(self, x) { return "m" + x; } }\nvar k = K.new(); var g = k.m; print(k.m("1") == g("1"));\n'
     'try { k.m(); } catch e { print(e.context); } try { g(); } catch e { print(e.context); }\n'
     'try { k.zz(); } catch e { print(type(e) == AttributeError); } try { var h = k.zz; } catch e { print(type(e) == AttributeError); }',
     ["true", "Expected 1 arguments but found 0.", "Expected 1 arguments but found 0.", "true", "true"]),
    ("constructors",
     'class P { #[constructor] fn new(self, v) { self.v = v; } }\n#[derive(P)] class Q { #[constructor] fn new(self, v, w) { super.new(v); self.w = w; } }\n'
     '#[derive(P)] class R { #[constructor] fn new(self) { self.own = true; } }\n'
     'var q = Q.new(1, 2); print(q.v); print(q.w); var r = R.new(); print(r.own); try { print(r.v); } catch e { print(type(e) == AttributeError); }\n'
     '#[constructor(make)] class D {} var d = D.make(); print(type(d) == D);',
     ["1", "2", "true", "true", "true"]),
    ("super-is-static",
     '#[constructor(new)] class A { fn hi(self) { return "A"; } }\n#[constructor(new), derive(A)] class B { fn hi(self) { return "B>" + super.hi(); } }\n'
     '#[constructor(new), derive(B)] class C { fn hi(self) { return "C>" + super.hi(); } }\nprint(C.new().hi()); print(B.new().hi());\n'
     'var c = C.new(); var bh = B.new().hi; print(bh());',
     ["C>B>A", "B>A", "B>A"]),
    ("super-inside-closures-keeps-the-receiver",
     'class A { fn who(self) { return "A.who(" + self.tag + ")"; } fn two(self, x) { return self.tag + x; } }\n'
     '#[derive(A)] class B { #[constructor] fn new(self, t) { self.tag = t; } fn who(self) { return "B.who"; }\n'
     ' fn m(self) { fn inner() { return super.who(); } return inner(); }\n fn m2(self) { var f = || super.who(); return f(); }\n'
     ' fn m3(self) { fn outer() { fn deep() { return super.two("!"); } return deep; } return outer()(); }\n fn m4(self) { fn g() { return super.who; } return g()(); } }\n'
     'var b = B.new("b"); print(b.m()); print(b.m2()); print(b.m3()); print(b.m4()); var later = B.new("late").m3; print(later());',
     ["A.who(b)", "A.who(b)", "b!", "A.who(b)", "late!"]),
    ("super-ignores-fields-and-dynamic-class",
     'class A { fn name(self) { return "A.name"; } fn who(self) { return "A.who(" + self.t + ")"; } }\n'
     '#[derive(A)] class B { fn who(self) { return "B.who"; } fn parent_who(self) { var f = super.who; return f(); } fn pname(self) { return super.name(); }\n'
     ' fn pextra(self) { return super.extra(); } }\n'
     '#[derive(B)] class C { #[constructor] fn new(self, t) { self.t = t; self.name = "a field"; self.extra = || "field extra"; } fn who(self) { return "C.who"; } }\n'
     '#[derive(C)] class D { #[constructor] fn new(self, t) { super.new(t); } fn who(self) { return "D.who"; } }\n'
     'var c = C.new("c"); var d = D.new("d"); print(c.parent_who()); print(d.parent_who()); print(c.pname()); print(d.pname());\n'
     'c.who = || "field who"; print(c.who()); print(c.parent_who()); var g = d.parent_who; print(g());\n'
     'try { print(c.pextra()); } catch e { print(type(e) == AttributeError); }',
     ["A.who(c)", "A.who(d)", "A.name", "A.name", "field who", "A.who(c)", "A.who(d)", "true"]),
    ("user-method-named-like-a-built-in-is-inherited",
     '#[constructor(new)] class Shape { fn derives(self, c) { return "Shape.derives"; } fn area(self) { return 0; } }\n#[constructor(new), derive(Shape)] class Square { fn area(self) { return 4; } }\n'
     '#[constructor(new), derive(Square)] class Unit { }\nprint(Shape.new().derives(Shape)); print(Square.new().derives(Shape)); print(Unit.new().derives(Object)); var f = Unit.new().derives; print(f(1));\n'
     '#[constructor(new)] class Plain { } print(Plain.new().derives(Plain)); print(Plain.new().derives(Shape));',
     ["Shape.derives", "Shape.derives", "Shape.derives", "Shape.derives", "true", "false"]),
    ("super-survives-rebinding",
     '#[constructor(new)] class A { fn hi(self) { return "old A"; } }\n#[constructor(new), derive(A)] class B { fn hi(self) { return super.hi(); } fn grab(self) { return super.hi; } }\n'
     'var b = B.new(); A = nil; print(b.hi()); print(b.grab()());\n#[constructor(new)] class A2 { fn hi(self) { return "new"; } } A = A2; print(b.hi()); print(B.new().hi());',
     ["old A", "old A", "old A", "old A"]),
    ("static-and-self",
     '#[constructor(new)] class S { #[static] fn make() { return Self.new(); } #[static] fn name() { return "S"; } fn inst(self) { return "i"; } }\n'
     'print(type(S.make()) == S); print(S.name()); try { S.inst(); } catch e { print(type(e) == AttributeError); }',
     ["true", "S", "true"]),
    ("errors-are-classified",
     'try { var X = 3; #[derive(X)] class Bad {} } catch e { print(type(e) == RuntimeError); print(e.context); }\n'
     '#[constructor(new)] class K { fn m(self, a) { return a; } }\ntry { K.new().m(1, 2); } catch e { print(type(e) == TypeError); }\n'
     'try { K.new().nope; } catch e { print(type(e) == AttributeError); print(e.context); }\ntry { K.new(1); } catch e { print(type(e) == TypeError); }\n'
     'try { 5.x = 1; } catch e { print(type(e) == AttributeError); } try { K(); } catch e { print(type(e) == TypeError); }',
     ["true", "Superclass must be a class.", "true", "true", "Undefined property 'nope'.", "true", "true", "true"]),
    ("classes-in-local-scopes-and-closures",
     'fn mk(tag) { #[constructor(new)] class L { fn t(self) { return tag; } } return L; }\nvar L1 = mk("one"); var L2 = mk("two"); print(L1.new().t()); print(L2.new().t()); print(L1 == L2);\n'
     'fn sub(base) { #[constructor(new), derive(base)] class D { fn t(self) { return "D>" + super.t(); } } return D; }\nprint(sub(L2).new().t()); print(sub(L1).new().t());',
     ["one", "two", "false", "D>two", "D>one"]),
    ("methods-stored-in-fields-and-variables",
     '#[constructor(new)] class K { fn m(self) { return "m of " + self.n; } }\nvar a = K.new(); a.n = "a"; var b = K.new(); b.n = "b"; b.borrowed = a.m; print(b.borrowed());\n'
     'var m = {"f": b.m}; print(m.get("f")()); var k2 = K.new(); k2.n = "k2"; k2.plain = |x| x + "!"; print(k2.plain("p"));',
     ["m of a", "m of b", "p!"]),
    ("override-at-every-level-with-fields",
     '#[constructor(new)] class A { fn v(self) { return 1; } fn sum(self) { return self.v() + 100; } }\n#[constructor(new), derive(A)] class B { fn v(self) { return 2; } }\n'
     '#[constructor(new), derive(B)] class C { fn v(self) { return 3; } }\n#[constructor(new), derive(C)] class D {}\nprint(A.new().sum()); print(B.new().sum()); print(C.new().sum()); print(D.new().sum());\n'
     'var d = D.new(); d.v = || 40; print(d.sum());',
     ["101", "102", "103", "103", "140"]),
    ("type-and-derives",
     '#[constructor(new)] class A {} #[constructor(new), derive(A)] class B {}\nvar b = B.new(); print(type(b) == B); print(b.derives(A)); print(b.derives(B)); print(A.new().derives(B)); print(b.derives(Object));',
     ["true", "true", "true", "false", "true"]),
]


# call_closure / return_impl translated from vm.rs on every run (Props/FnsTie/CallReturn): wrong arity and exhausted call depth are handed to the
# exception machinery and push no frame; a call saves the resume point and pushes a frame at the callee; Return cuts the stack to the frame's base,
# puts the result there and resumes the caller ("calls are atomic"); the last Return of a called fiber hands the result to the caller
THEOREM_MODULES.append("Yarel.Props.FnsTie.CallReturn")
REQUIRED_THEOREMS += ['call_wrong_arity', 'call_effect']


def arity_scenarios():
    """A callable that declares n parameters is called with k != n arguments through every route a call can take (method invoked on the
    instance, method value, bound method kept in a field / a map / a module-level variable, static method, constructor, super call,
    plain function, lambda): the call is a TypeError naming n and k, nothing else happens - in particular the caller's own variables,
    which lie directly below the call on the value stack, are what they were."""
    out = []
    for n in range(0, 5):
        params = ", ".join("p%d" % i for i in range(n))
        sp = (", " + params) if n else ""
        lines = ["#[constructor(new)]", "class Base { fn m(self%s) { return \"base m\"; } }" % sp,
                 "#[derive(Base)]", "class K {", "    #[constructor]", "    fn new(self) { self.tag = \"K instance\"; }",
                 "    fn m(self%s) { return \"m\"; }" % sp, "    fn up(self, k) { CALLS_SUPER }", "    #[static]", "    fn s(%s) { return \"s\"; }" % params, "}",
                 "class Made {", "    #[constructor]", "    fn make(self%s) { self.ok = true; }" % sp, "}",
                 "#[constructor(new)]", "class Holder {}",
                 "fn plain(%s) { return \"plain\"; }" % params, "var lam = |%s| \"lam\";" % params,
                 "fn show(v) { if type(v) == String { return v; } return \"<\" + String.from(type(v)) + \">\"; }"]
        def calls(callee):
            return " ".join("if k == %d { %s(%s); }" % (k, callee, ", ".join(str(j) for j in range(k))) for k in range(0, 6) if k != n)
        lines[7] = lines[7].replace("CALLS_SUPER", 'var left = "left"; var right = "right"; try { %s } catch e { print("super: " + e.context); } print(show(left) + " " + show(right));'
                                    % calls("super.m"))
        routes = [("invoke", "inst.m", ""), ("value", "f", "var f = inst.m;"), ("field", "h.f", "var h = Holder.new(); h.f = inst.m;"),
                  ("map", "mp.get(\"f\")", "var mp = {\"f\": inst.m};"), ("static", "K.s", ""), ("static-value", "sv", "var sv = K.s;"),
                  ("ctor", "Made.make", ""), ("ctor-value", "cv", "var cv = Made.make;"), ("plain", "plain", ""), ("lambda", "lam", ""),
                  ("lambda-field", "h2.g", "var h2 = Holder.new(); h2.g = lam;")]
        for rname, callee, setup in routes:
            lines += ["fn via_%s(inst, k) {" % rname.replace("-", "_"), '    var left = "left";', "    %s" % setup, '    var right = "right";',
                      '    try { %s print("no error"); } catch e { print("%s: " + e.context); }' % (calls(callee), rname),
                      "    print(show(left) + \" \" + show(right));", "}"]
        exp = []
        lines.append("var inst = K.new();")
        for k in range(0, 6):
            if k == n:
                continue
            for rname, _, _ in routes:
                lines.append("via_%s(inst, %d);" % (rname.replace("-", "_"), k))
                exp += ["%s: Expected %d arguments but found %d." % (rname, n, k), "left right"]
            lines.append("inst.up(%d);" % k)
            exp += ["super: Expected %d arguments but found %d." % (n, k), "left right"]
        lines.append('print(inst.tag);')
        exp.append("K instance")
        out.append(("wrong-arity-%d-parameters-every-route" % n, "\n".join(lines) + "\n", exp))
    return out


def field_value_scenario():
    """Own fields come first WHATEVER value the field holds: for every kind of value (nil and false included) and every kind of class
    member of that name (own method, inherited method, static method, constructor, the built-in `derives`), after `obj.name = value`:
    reading the member gives the value, a call calls the value (or is the TypeError for calling a non-callable), `type` of it is the
    value's, another instance of the class still finds the class member, and assigning again replaces it."""
    values = [("nil", "nil", None), ("false", "false", None), ("0", "0", None), ('""', '""', None), ("[7]", "[7]", None),
              ("|| \"closure\"", None, "closure"), ("other.tag_of", None, "other"), ("Base", None, None), ("print", None, None)]
    members = ["own", "inherited", "stat", "new", "derives"]
    lines = ['#[constructor(new)]', 'class Base { fn inherited(self) { return "Base.inherited"; } }',
             '#[constructor(new), derive(Base)]', 'class K { fn own(self) { return "K.own"; } #[static] fn stat() { return "K.stat"; } }',
             '#[constructor(new)]', 'class Other { fn tag_of(self) { return "other"; } }', 'var other = Other.new();', 'fn same(x, y) { return x == y; }']
    exp = []
    for vi, (vsrc, shown, called) in enumerate(values):
        for m in members:
            lines.append("{ var o = K.new(); var fresh = K.new(); var v = %s; o.%s = v;" % (vsrc, m))
            lines.append("  print(same(o.%s, v) || type(o.%s) == type(v));" % (m, m))
            exp.append("true")
            if vsrc in ("nil", "false"):
                lines.append("  if o.%s { print(\"truthy\"); } else { print(\"falsy\"); }" % m)
                exp.append("falsy")
            if called is not None:
                lines.append("  print(o.%s());" % m)
                exp.append(called)
            elif vsrc == "Base":
                lines.append("  try { o.%s(); print(\"called a class\"); } catch e { print(type(e) == TypeError); }" % m)
                exp.append("true")
            elif vsrc == "print":
                pass
            else:
                lines.append("  try { o.%s(); print(\"called\"); } catch e { print(type(e) == TypeError); }" % m)
                exp.append("true")
            # another instance still finds the class member
            if m in ("own", "inherited"):
                lines.append("  print(fresh.%s());" % m)
                exp.append("K.own" if m == "own" else "Base.inherited")
            elif m == "stat":
                lines.append("  print(fresh.stat());")
                exp.append("K.stat")
            elif m == "derives":
                lines.append("  print(fresh.derives(Base));")
                exp.append("true")
            lines.append("  o.%s = \"again\"; print(o.%s); }" % (m, m))
            exp.append("again")
    return ("fields-first-whatever-value-the-field-holds", "\n".join(lines) + "\n", exp)


def hier_requests(rng, n):
    """Random hierarchies for the model driver + the Yarel program that answers the same queries on the implementation."""
    out = []
    for i in range(n):
        r = rng.fork("h%d" % i)
        names = ["A", "B", "C", "D"][:1 + r.below(4)]
        methods = ["m1", "m2", "m3"]
        classes = []
        src = []
        for k, nm in enumerate(names):
            sup = names[r.below(k)] if k > 0 and r.chance(3, 4) else None
            ms = [m for m in methods if r.chance(1, 2)]
            ss = [m for m in ["s1", "s2"] if r.chance(1, 3)]
            classes.append("%s:%s:%s:%s" % (nm, sup or "-", ",".join(ms) or "-", ",".join(ss) or "-"))
            attrs = ["constructor(new)"] + (["derive(%s)" % sup] if sup else [])
            src.append("#[%s]" % ", ".join(attrs))
            body = ["    fn %s(self) { return \"%s\"; }" % (m, nm) for m in ms] + ["    #[static]\n    fn %s() { return \"static:%s\"; }" % (m, nm) for m in ss]
            src.append("class %s {\n%s\n}" % (nm, "\n".join(body)))
        queries = []
        for nm in names:
            for m in methods + ["s1", "s2"]:
                queries.append("%s.%s" % (nm, m))
                src.append('try { print(%s.new().%s()); } catch e { if type(e) == AttributeError { print("none"); } else { print("err " + String.from(type(e))); } }' % (nm, m))
            for m in ["s1", "s2", "m1"]:
                queries.append("%s::%s" % (nm, m))
                src.append('try { print(%s.%s()); } catch e { if type(e) == AttributeError { print("none"); } else { print("err " + String.from(type(e))); } }' % (nm, m))
        out.append(("hier %s | %s" % (";".join(classes), ";".join(queries)), "\n".join(src) + "\n"))
    return out


SCENARIOS += arity_scenarios()
SCENARIOS.append(field_value_scenario())


# hierarchies of every DEPTH whose classes all have ONE NAME: a chain built by a loop through a function (each class is `Link`, derived from
# the class the function was given), 600 long; instances at depths around the widths a depth counter could have answer derives() for
# near and far ancestors, for the class one step below them and for Object; methods and one-step super calls reach the right level
def deep_chain_scenario():
    top = 600
    marks = [1, 2, 3, 127, 128, 129, 254, 255, 256, 257, 258, 300, 511, 512, 513, 599, 600]
    src = ('#[constructor(new)] class Base { fn who(self) { return "root"; } fn level(self) { return 0; } }\n'
           'fn grow(Parent, i) { #[constructor(new), derive(Parent)] class Link { fn level(self) { return i; } fn up(self) { return super.level(); } } return Link; }\n'
           'var chain = [Base]; var c = Base;\nfor i in 1..%d { c = grow(c, i); chain.push(c); }\n'
           'for t in [%s] {\n  var n = t[0]; var x = chain[n].new();\n'
           '  print([n, x.level(), x.up(), x.who(), x.derives(Base), x.derives(chain[n]), x.derives(chain[n - 1]), x.derives(chain[1]), x.derives(chain[t[1]]),\n'
           '         n < %d && x.derives(chain[t[2]]), x.derives(Object), type(x) == chain[n], type(x) == chain[n - 1]]);\n}\n'
           'var Old = Base;\n#[constructor(new), derive(Old)] class Base { fn who(self) { return "second " + super.who(); } }\n'
           'var b = Base.new(); print([b.who(), b.level(), b.derives(Old), b.derives(Base), Old.new().derives(Base)]);\n'
           % (top + 1, ", ".join("[%d, %d, %d]" % (m, (m + 1) // 2, min(m + 1, top)) for m in marks), top))
    exp = []
    for n in marks:
        below = "false"      # the class one step further down is not an ancestor (for n = top the index stays n and the test is short-circuited)
        exp.append("[%d, %d, %d, root, true, true, true, true, true, %s, true, true, false]" % (n, n, n - 1, below))
    exp.append("[second root, 0, true, true, false]")
    return ("deep-chain-of-classes-with-one-name", src, exp)


SCENARIOS.append(deep_chain_scenario())

# `Self` inside lambdas and functions NESTED in a static method (depth 1 and 2, called at once or later) is the class the method was invoked
# through - the class itself, a subclass, an instance of a sub-subclass, a bound static taken from an instance - also after the class names
# have been rebound, and for a class declared in a block
SCENARIOS.append(("Self-in-closures-nested-in-static-methods", '#[constructor(new)]\nclass Widget {\n  #[static] fn direct() { return Self; }\n  #[static] fn via_lambda() { return (|| Self)(); }\n  #[static] fn via_lambda2() { return (|| (|| Self)())(); }\n  #[static] fn via_fn() { fn inner() { return Self; } return inner(); }\n  #[static] fn later() { return || Self; }\n  #[static] fn make_later() { return || Self.new(); }\n  fn kind(self) { return "widget"; }\n}\n#[constructor(new), derive(Widget)]\nclass Button { fn kind(self) { return "button"; } }\n#[constructor(new), derive(Button)]\nclass Toggle { fn kind(self) { return "toggle"; } }\nvar b = Button.new();\nvar t = Toggle.new();\nfor recv in [Widget.new(), b, t] {\n  print(recv.direct()); print(recv.via_lambda()); print(recv.via_lambda2()); print(recv.via_fn()); print(recv.later()()); print(recv.make_later()().kind());\n  var bound = recv.via_lambda; print(bound());\n  var bound2 = recv.later; print(bound2()());\n}\nprint(Widget.direct()); print(Widget.via_lambda()); print(Widget.via_fn()); print(Widget.later()());\nvar Kept = Widget;\nvar k1 = Kept.later();\nvar k2 = Kept.make_later();\nvar kb = b.make_later();\nWidget = nil;\nButton = "rebound";\nprint(k1()); print(k2().kind()); print(kb().kind()); print(Kept.via_lambda()); print(Kept.via_fn()); print(b.via_lambda2()); print(t.via_fn());\n{\n  #[constructor(new)]\n  class Local { #[static] fn me() { return || Self; } #[static] fn mk() { return (|| Self.new())(); } fn kind(self) { return "local"; } }\n  var f = Local.me();\n  var L2 = Local;\n  print(f() == L2);\n  print(Local.mk().kind());\n}\n', ['<class Widget>', '<class Widget>', '<class Widget>', '<class Widget>', '<class Widget>', 'widget', '<class Widget>', '<class Widget>', '<class Button>', '<class Button>', '<class Button>', '<class Button>', '<class Button>', 'button', '<class Button>', '<class Button>', '<class Toggle>', '<class Toggle>', '<class Toggle>', '<class Toggle>', '<class Toggle>', 'toggle', '<class Toggle>', '<class Toggle>', '<class Widget>', '<class Widget>', '<class Widget>', '<class Widget>', '<class Widget>', 'widget', 'button', '<class Widget>', '<class Widget>', '<class Button>', '<class Toggle>', 'true', 'local']))
# the member calls the interpreter makes on its own (the `iter()` and `next()` of a for loop) are member accesses like any other: own fields
# first (a bound method of ANOTHER object, a closure), then the nearest method; a class without the method but an instance with the field
# a method taken as a value and handed to a built-in that will call it (Fiber.new, map, filter, reduce, a fiber that receives it) is
# either refused or called with the receiver it was taken from - for instance methods, super methods, static methods, constructors, natives
SCENARIOS.append(("callables-handed-to-built-ins-keep-their-receiver", '#[constructor(new)] class A { fn who(self) { return "A:" + self.tag; } fn add(self, x) { return self.tag + String.from(x); } #[static] fn st(x) { return "st" + String.from(x); } }\n#[derive(A)] class B { #[constructor] fn new(self) { super.new(); } fn who(self) { return "B>" + super.who(); } fn sup(self) { return super.add; } }\nvar a = A.new(); a.tag = "a"; var b = B.new(); b.tag = "b";\nfn attempt(f) { try { print(f()); } catch e { print(type(e)); } }\nvar callables = [a.who, b.who, a.add, b.sup(), A.st, b.st, [1, 2].len, "xy".len];\nattempt(|| Fiber.new(a.who).call());\nattempt(|| Fiber.new(b.who).call());\nattempt(|| Fiber.new(a.add).call(1));\nattempt(|| Fiber.new(b.sup()).call(2));\nattempt(|| Fiber.new(A.st).call(3));\nattempt(|| Fiber.new([1, 2].len).call());\nattempt(|| Fiber.new(A.new).call());\nattempt(|| Fiber.new(|| a.who()).call());\nattempt(|| [1, 2].iter().map(a.add).collect());\nattempt(|| [1, 2].iter().map(b.sup()).collect());\nattempt(|| [1, 2].iter().map(A.st).collect());\nattempt(|| [1, 2].iter().filter(a.add).collect());\nattempt(|| [1, 2].iter().reduce(|acc, x| acc + a.add(x), ""));\nattempt(|| [[1], [2, 3]].iter().map([9].len).collect());\nvar held = Fiber.new(|f| { var r = f(7); Fiber.yield(r); return f(8); });\nattempt(|| held.call(b.sup()));\nattempt(|| held.call());\n', ['<class TypeError>', '<class TypeError>', '<class TypeError>', '<class TypeError>', '<class TypeError>', '<class TypeError>', '<class TypeError>', 'A:a', '[a1, a2]', '[b1, b2]', '[st1, st2]', '[1, 2]', 'a1a2', '<class TypeError>', 'b7', 'b8']))
# fields first also for calls written `self.m(..)` inside a method of the class that declares `m` (directly, in a closure, through a
# variable, through `super`), for instances of the class and of a subclass that overrides `m`
SCENARIOS.append(("self-calls-see-fields-first", '#[constructor(new)] class G { fn hello(self, w) { return "hello " + w + " from method of g"; } fn greet(self, w) { return self.hello(w); } fn later(self, w) { return (|| self.hello(w))(); } fn viaVar(self, w) { var f = self.hello; return f(w); } }\n#[derive(G), constructor(new)] class L { fn hello(self, w) { return "HELLO " + w + " FROM OVERRIDE OF l"; } fn up(self, w) { return super.greet(w); } }\nvar g = G.new(); var l = L.new();\nprint(g.greet("a")); print(l.greet("a")); print(l.up("a"));\ng.hello = |w| "hi " + w + " from the field"; l.hello = |w| "hi " + w + " from the field of l";\nprint(g.greet("b")); print(g.later("b")); print(g.viaVar("b")); print(g.hello("b"));\nprint(l.greet("c")); print(l.up("c")); print(l.later("c")); print(l.viaVar("c"));\nvar g2 = G.new(); print(g2.greet("d"));\ng2.greet = |w| "field greet " + w; print(g2.greet("e")); print(G.new().greet("f"));\n', ['hello a from method of g', 'HELLO a FROM OVERRIDE OF l', 'HELLO a FROM OVERRIDE OF l', 'hi b from the field', 'hi b from the field', 'hi b from the field', 'hi b from the field', 'hi c from the field of l', 'hi c from the field of l', 'hi c from the field of l', 'hi c from the field of l', 'hello d from method of g', 'field greet e', 'hello f from method of g']))
SCENARIOS.append(("implicit-protocol-calls-see-fields-first", '#[constructor(new)]\nclass Seq { fn iter(self) { return self; } fn next(self) { return StopIter.new(); } }\nvar src = [10, 20, 30].iter();\nvar a = Seq.new();\na.next = src.next;\nfor v in a { print(v); }\nvar b = Seq.new();\nvar n = 0;\nb.next = || { n = n + 1; if n > 2 { return StopIter.new(); } return n; };\nfor v in b { print(v); }\nprint(type(b.next()) == StopIter);\nvar c = Seq.new();\nc.iter = || [7, 8].iter();\nfor v in c { print(v); }\nfor v in Seq.new() { print("never"); }\n#[constructor(new)]\nclass Bare {}\nvar d = Bare.new();\nvar k = 0;\nd.iter = || d;\nd.next = || { k = k + 1; if k > 2 { return StopIter.new(); } return k * 100; };\nfor v in d { print(v); }\n#[constructor(new), derive(Seq)]\nclass Sub { fn next(self) { self.count = self.count + 1; if self.count > 1 { return StopIter.new(); } return "sub"; } }\nvar e = Sub.new();\ne.count = 0;\nfor v in e { print(v); }\nvar f = Sub.new();\nf.count = 0;\nf.next = a.next;\nfor v in f { print("f " + String.from(v)); }\nprint(f.count);\n',
                  ["10", "20", "30", "1", "2", "true", "7", "8", "100", "200", "sub", "0"]))


def correspondence(ctx, model_ok=True):
    rng = ctx.rng.fork("c07")
    failures = []
    broken = []
    hs = hier_requests(rng, 4800 if ctx.thorough else 3000)
    real, _ = progs.run_programs(ctx.runner, [("h%d" % i, s, {}) for i, (_, s) in enumerate(hs)], {"gc": "default"}, tag="h")
    compared = 0
    if model_ok:
        try:
            ans = vlib.run_model("cls", [q for q, _ in hs])
            for (q, src), a, r in zip(hs, ans, real):
                c = progs.canon_step(r)
                exp = a.split(",")
                got = []
                for line, e in zip(c[2] if len(c) > 2 else [], exp):
                    # an instance-method query: the implementation prints the defining class's tag; static reached through an instance prints static:<cls>
                    got.append(line)
                norm_exp = []
                for e in exp:
                    norm_exp.append(e)
                compared += len(exp)
                if c[0] != "ok" or [g for g in got] != norm_exp:
                    k = next((i for i in range(min(len(got), len(norm_exp))) if got[i] != norm_exp[i]), None)
                    failures.append({"what": "class-table model and implementation disagree on which method a lookup selects", "request": q, "program": src,
                                     "first_difference": None if k is None else {"query": q.split("|")[1].split(";")[k].strip(), "model": norm_exp[k], "real": got[k]},
                                     "status": c[0], "signature": "model-vs-real class lookup", "failing_input": True})
        except Exception as e:
            broken.append("model driver cls: %s" % e)
    # classes made on the fly, used through both call forms and dropped, in an asymmetric rhythm, with collections that really free (block
    # addresses are re-used): each object answers with its own tag (the churn probes of C01)
    import probes_gc
    churn = [(n, probes_gc.CHURN + src, {}) for n, src in probes_gc.CHURN_PROBES if n.startswith("churn.class")]
    cres, _ = progs.run_programs(ctx.runner, churn, {"gc": "always"}, tag="u")
    for (name, src, _), r in zip(churn, cres):
        c = progs.canon_step(r)
        if c[0] != "ok" or list(c[2]) != ["0"]:
            failures.append({"what": "classes created and dropped in a loop: a member access answered for another class (%s prints %s, expected ['0'])" % (name, str(c)[:200]),
                             "program": src, "name": name, "signature": "class churn " + name, "failing_input": True})
    scen = [(n, s, {}) for n, s, _ in SCENARIOS]
    for mode in ({"gc": "default"}, {"gc": "always", "quarantine": 1}):
        sres, _ = progs.run_programs(ctx.runner, scen, mode, tag="s")
        for (name, src, _), r, (_, _, e) in zip(scen, sres, SCENARIOS):
            c = progs.canon_step(r)
            uaf = r.get("uaf") if isinstance(r, dict) else None
            if c[0] != "ok" or list(c[2]) != e or uaf:
                failures.append({"what": "class scenario '%s' prints %s (%s %s), expected %s" % (name, list(c[2]) if len(c) > 2 else c, c[0], list(c[3])[:1] if len(c) > 3 else "", e),
                                 "program": src, "expected": e, "signature": "scenario " + name, "failing_input": True})
    gen = progs.generated(rng, ["classes"], 6400 if ctx.thorough else 3600)
    # metamorphic: every generated class program must print the same under stress GC (receiver/bound-method objects are short-lived temporaries)
    a, _ = progs.run_programs(ctx.runner, [(n, s, m) for n, s, m, _ in gen], {"gc": "default"}, tag="g")
    b, _ = progs.run_programs(ctx.runner, [(n, s, m) for n, s, m, _ in gen], {"gc": "always", "quarantine": 1}, tag="g")
    for (n, s, m, _), x, y in zip(gen, a, b):
        if progs.canon_step(x) != progs.canon_step(y) or (isinstance(y, dict) and y.get("uaf")):
            failures.append({"what": "class program behaves differently under stress collection", "program": s, "signature": "class program gc-dependent", "failing_input": True})
    sd = specdiff.diff(ctx, [(n, s, m) for n, s, m, _ in gen] + [("scenario:" + sc[0], sc[1], {}) for sc in SCENARIOS], "C07", broken) if model_ok else {"failures": [], "compared": 0}
    failures += sd["failures"]
    tags = {}
    for _, _, _, tg in gen:
        for t in tg:
            tags[t] = tags.get(t, 0) + 1
    cov = {
        "evaluations": compared + 2 * len(scen) + 2 * len(gen) + sd["compared"],
        "distinct_nontrivial": len(set(q for q, _ in hs)),
        "rule": "random hierarchies of 1-4 classes (random superclass among earlier ones, random subsets of 3 methods and 2 static methods) x all lookups "
                "through instances and through the class value; distinct = distinct hierarchy; plus %d constructed-oracle scenarios x 2 GC modes and generated class programs" % len(scen),
        "samples": [hs[0][0], hs[0][1][:400]],
        "lookups_compared": compared,
        "scenarios": len(scen),
        "programs_compared_with_reference_interpreter": sd["compared"],
        "generator_distribution": dict(sorted(tags.items(), key=lambda kv: -kv[1])[:20]),
        "programs": len(hs) + len(scen) + len(gen),
    }
    from props.c08 import dedupe
    return {"failures": dedupe(failures), "coverage": cov, "broken": broken}


def replay(ctx, payload):
    if "program" not in payload:
        return False, "nothing to replay"
    r, _ = progs.run_programs(ctx.runner, [("r", payload["program"], {})], {"gc": "default"})
    c = progs.canon_step(r[0])
    if "expected" in payload:
        return c[0] == "ok" and list(c[2]) == payload["expected"], str(c)
    return c[0] == "ok", str(c)[:800]
