//! Normalised type model and the program-wide type database (structs, enums, aliases, impls).

use crate::common::*;
use std::collections::BTreeMap;
use std::fmt;

#[derive(Debug, Clone, PartialEq, Eq, PartialOrd, Ord)]
pub enum Ty {
    /// Path type; only the last segment name is kept.
    Path { name: String, args: Vec<Ty> },
    RawPtr { mutable: bool, inner: Box<Ty> },
    Ref(Box<Ty>),
    Slice(Box<Ty>),
    Array(Box<Ty>, String),
    Tuple(Vec<Ty>),
    FnPtr,
    /// Const generic argument or anything else kept only as text.
    Other(String),
}

impl fmt::Display for Ty {
    fn fmt(&self, f: &mut fmt::Formatter<'_>) -> fmt::Result {
        match self {
            Ty::Path { name, args } => {
                write!(f, "{}", name)?;
                if !args.is_empty() {
                    write!(f, "<")?;
                    for (i, a) in args.iter().enumerate() {
                        if i > 0 {
                            write!(f, ",")?;
                        }
                        write!(f, "{}", a)?;
                    }
                    write!(f, ">")?;
                }
                Ok(())
            }
            Ty::RawPtr { mutable, inner } => {
                write!(f, "*{} {}", if *mutable { "mut" } else { "const" }, inner)
            }
            Ty::Ref(t) => write!(f, "&{}", t),
            Ty::Slice(t) => write!(f, "[{}]", t),
            Ty::Array(t, n) => write!(f, "[{};{}]", t, n),
            Ty::Tuple(v) => {
                write!(f, "(")?;
                for (i, a) in v.iter().enumerate() {
                    if i > 0 {
                        write!(f, ",")?;
                    }
                    write!(f, "{}", a)?;
                }
                write!(f, ")")
            }
            Ty::FnPtr => write!(f, "fn"),
            Ty::Other(s) => write!(f, "{}", s),
        }
    }
}

impl Ty {
    pub fn path(name: &str, args: Vec<Ty>) -> Ty {
        Ty::Path {
            name: name.to_string(),
            args,
        }
    }

    pub fn head(&self) -> Option<&str> {
        match self {
            Ty::Path { name, .. } => Some(name.as_str()),
            _ => None,
        }
    }

    pub fn strip_refs(&self) -> &Ty {
        let mut t = self;
        while let Ty::Ref(inner) = t {
            t = inner;
        }
        t
    }

    pub fn subst(&self, map: &BTreeMap<String, Ty>) -> Ty {
        match self {
            Ty::Path { name, args } => {
                if args.is_empty() {
                    if let Some(t) = map.get(name) {
                        return t.clone();
                    }
                }
                Ty::Path {
                    name: name.clone(),
                    args: args.iter().map(|a| a.subst(map)).collect(),
                }
            }
            Ty::RawPtr { mutable, inner } => Ty::RawPtr {
                mutable: *mutable,
                inner: Box::new(inner.subst(map)),
            },
            Ty::Ref(t) => Ty::Ref(Box::new(t.subst(map))),
            Ty::Slice(t) => Ty::Slice(Box::new(t.subst(map))),
            Ty::Array(t, n) => {
                let n2 = match map.get(n) {
                    Some(x) => x.to_string(),
                    None => n.clone(),
                };
                Ty::Array(Box::new(t.subst(map)), n2)
            }
            Ty::Tuple(v) => Ty::Tuple(v.iter().map(|a| a.subst(map)).collect()),
            Ty::FnPtr => Ty::FnPtr,
            Ty::Other(s) => match map.get(s) {
                Some(t) => t.clone(),
                None => Ty::Other(s.clone()),
            },
        }
    }

    /// Does the type mention any of these (generic parameter) names?
    pub fn mentions_any(&self, names: &[String]) -> bool {
        match self {
            Ty::Path { name, args } => {
                (args.is_empty() && names.contains(name)) || args.iter().any(|a| a.mentions_any(names))
            }
            Ty::RawPtr { inner, .. } => inner.mentions_any(names),
            Ty::Ref(t) | Ty::Slice(t) | Ty::Array(t, _) => t.mentions_any(names),
            Ty::Tuple(v) => v.iter().any(|a| a.mentions_any(names)),
            Ty::FnPtr => false,
            Ty::Other(s) => names.contains(s),
        }
    }
}

pub fn convert_type(t: &syn::Type) -> Ty {
    match t {
        syn::Type::Path(p) => {
            if p.qself.is_some() {
                return Ty::Other(toks(t));
            }
            let last = p.path.segments.last().unwrap();
            let mut args = Vec::new();
            if let syn::PathArguments::AngleBracketed(ab) = &last.arguments {
                for a in &ab.args {
                    match a {
                        syn::GenericArgument::Type(t) => args.push(convert_type(t)),
                        syn::GenericArgument::Lifetime(_) => {}
                        other => args.push(Ty::Other(toks(other))),
                    }
                }
            }
            Ty::Path {
                name: last.ident.to_string(),
                args,
            }
        }
        syn::Type::Ptr(p) => Ty::RawPtr {
            mutable: p.mutability.is_some(),
            inner: Box::new(convert_type(&p.elem)),
        },
        syn::Type::Reference(r) => Ty::Ref(Box::new(convert_type(&r.elem))),
        syn::Type::Slice(s) => Ty::Slice(Box::new(convert_type(&s.elem))),
        syn::Type::Array(a) => Ty::Array(Box::new(convert_type(&a.elem)), toks(&a.len)),
        syn::Type::Tuple(t) => Ty::Tuple(t.elems.iter().map(convert_type).collect()),
        syn::Type::BareFn(_) => Ty::FnPtr,
        syn::Type::Paren(p) => convert_type(&p.elem),
        syn::Type::Group(p) => convert_type(&p.elem),
        other => Ty::Other(toks(other)),
    }
}

#[derive(Debug, Clone)]
pub struct StructDef {
    pub file: String,
    pub name: String,
    pub params: Vec<String>,
    /// (field name or tuple index, type)
    pub fields: Vec<(String, Ty)>,
}

#[derive(Debug, Clone)]
pub struct VariantDef {
    pub name: String,
    pub fields: Vec<(String, Ty)>,
    pub discriminant: Option<String>,
}

#[derive(Debug, Clone)]
pub struct EnumDef {
    pub file: String,
    pub name: String,
    pub params: Vec<String>,
    pub variants: Vec<VariantDef>,
}

#[derive(Debug, Clone)]
pub struct AliasDef {
    pub file: String,
    pub name: String,
    pub params: Vec<String>,
    pub ty: Ty,
}

#[derive(Clone)]
pub struct ImplDef {
    pub file: String,
    pub params: Vec<String>,
    pub self_ty: Ty,
    /// Last segment of the trait path, None for inherent impls.
    pub trait_name: Option<String>,
    pub fns: Vec<syn::ImplItemFn>,
}

#[derive(Default)]
pub struct TypeDb {
    pub structs: BTreeMap<String, Vec<StructDef>>,
    pub enums: BTreeMap<String, Vec<EnumDef>>,
    pub aliases: BTreeMap<String, Vec<AliasDef>>,
    pub impls: Vec<ImplDef>,
}

pub fn generic_names(g: &syn::Generics) -> Vec<String> {
    g.params
        .iter()
        .filter_map(|p| match p {
            syn::GenericParam::Type(t) => Some(t.ident.to_string()),
            syn::GenericParam::Const(c) => Some(c.ident.to_string()),
            _ => None,
        })
        .collect()
}

fn fields_of(f: &syn::Fields) -> Vec<(String, Ty)> {
    match f {
        syn::Fields::Named(n) => n
            .named
            .iter()
            .map(|f| (f.ident.as_ref().unwrap().to_string(), convert_type(&f.ty)))
            .collect(),
        syn::Fields::Unnamed(u) => u
            .unnamed
            .iter()
            .enumerate()
            .map(|(i, f)| (i.to_string(), convert_type(&f.ty)))
            .collect(),
        syn::Fields::Unit => Vec::new(),
    }
}

impl TypeDb {
    pub fn build(srcs: &[Src]) -> TypeDb {
        let mut db = TypeDb::default();
        for s in srcs {
            db.add_items(&s.name, &s.ast.items);
        }
        db
    }

    fn add_items(&mut self, file: &str, items: &[syn::Item]) {
        for i in items {
            match i {
                syn::Item::Struct(s) => {
                    let d = StructDef {
                        file: file.to_string(),
                        name: s.ident.to_string(),
                        params: generic_names(&s.generics),
                        fields: fields_of(&s.fields),
                    };
                    self.structs.entry(d.name.clone()).or_default().push(d);
                }
                syn::Item::Enum(e) => {
                    let d = EnumDef {
                        file: file.to_string(),
                        name: e.ident.to_string(),
                        params: generic_names(&e.generics),
                        variants: e
                            .variants
                            .iter()
                            .map(|v| VariantDef {
                                name: v.ident.to_string(),
                                fields: fields_of(&v.fields),
                                discriminant: v.discriminant.as_ref().map(|(_, e)| toks(e)),
                            })
                            .collect(),
                    };
                    self.enums.entry(d.name.clone()).or_default().push(d);
                }
                syn::Item::Type(t) => {
                    let d = AliasDef {
                        file: file.to_string(),
                        name: t.ident.to_string(),
                        params: generic_names(&t.generics),
                        ty: convert_type(&t.ty),
                    };
                    self.aliases.entry(d.name.clone()).or_default().push(d);
                }
                syn::Item::Impl(im) => {
                    let fns = im
                        .items
                        .iter()
                        .filter_map(|it| match it {
                            syn::ImplItem::Fn(f) => Some(f.clone()),
                            _ => None,
                        })
                        .collect();
                    self.impls.push(ImplDef {
                        file: file.to_string(),
                        params: generic_names(&im.generics),
                        self_ty: convert_type(&im.self_ty),
                        trait_name: im
                            .trait_
                            .as_ref()
                            .map(|(_, p, _)| p.segments.last().unwrap().ident.to_string()),
                        fns,
                    });
                }
                syn::Item::Mod(m) => {
                    if let Some((_, items)) = &m.content {
                        self.add_items(file, items);
                    }
                }
                _ => {}
            }
        }
    }

    pub fn the_struct(&self, name: &str, why: &str) -> R<Option<&StructDef>> {
        match self.structs.get(name) {
            None => Ok(None),
            Some(v) if v.len() == 1 => Ok(Some(&v[0])),
            Some(v) => unsup(
                &v[0].file,
                &format!("struct {}", name),
                format!(
                    "struct name defined {} times ({}); ambiguous while {}",
                    v.len(),
                    v.iter().map(|d| d.file.clone()).collect::<Vec<_>>().join(", "),
                    why
                ),
            ),
        }
    }

    pub fn the_enum(&self, name: &str, why: &str) -> R<Option<&EnumDef>> {
        match self.enums.get(name) {
            None => Ok(None),
            Some(v) if v.len() == 1 => Ok(Some(&v[0])),
            Some(v) => unsup(
                &v[0].file,
                &format!("enum {}", name),
                format!("enum name defined {} times; ambiguous while {}", v.len(), why),
            ),
        }
    }

    /// Expand type aliases at the head (repeatedly).
    pub fn expand(&self, t: &Ty) -> R<Ty> {
        let mut cur = t.clone();
        for _ in 0..16 {
            let (name, args) = match &cur {
                Ty::Path { name, args } => (name.clone(), args.clone()),
                _ => return Ok(cur),
            };
            // A struct/enum of that name wins over an alias.
            if self.structs.contains_key(&name) || self.enums.contains_key(&name) {
                return Ok(cur);
            }
            match self.aliases.get(&name) {
                None => return Ok(cur),
                Some(v) if v.len() == 1 => {
                    let a = &v[0];
                    if a.params.len() != args.len() {
                        return unsup(
                            &a.file,
                            &format!("type {}", name),
                            "alias used with a different number of generic arguments",
                        );
                    }
                    let map: BTreeMap<String, Ty> =
                        a.params.iter().cloned().zip(args.into_iter()).collect();
                    cur = a.ty.subst(&map);
                }
                Some(v) => {
                    return unsup(&v[0].file, &format!("type {}", name), "alias defined more than once");
                }
            }
        }
        Ok(cur)
    }

    /// Deep alias expansion.
    pub fn expand_deep(&self, t: &Ty) -> R<Ty> {
        let t = self.expand(t)?;
        Ok(match t {
            Ty::Path { name, args } => Ty::Path {
                name,
                args: args.iter().map(|a| self.expand_deep(a)).collect::<R<Vec<_>>>()?,
            },
            Ty::RawPtr { mutable, inner } => Ty::RawPtr {
                mutable,
                inner: Box::new(self.expand_deep(&inner)?),
            },
            Ty::Ref(t) => Ty::Ref(Box::new(self.expand_deep(&t)?)),
            Ty::Slice(t) => Ty::Slice(Box::new(self.expand_deep(&t)?)),
            Ty::Array(t, n) => Ty::Array(Box::new(self.expand_deep(&t)?), n),
            Ty::Tuple(v) => Ty::Tuple(v.iter().map(|a| self.expand_deep(a)).collect::<R<Vec<_>>>()?),
            other => other,
        })
    }
}
