//! xlate: re-reads the yarel sources and emits facts.json + Lean tables.

mod common;
mod fnbody;
mod gc;
mod sites;
mod tables;
mod ty;

use common::*;
use std::fs;
use std::path::{Path, PathBuf};
use std::process::exit;

fn die(code: i32, msg: &str) -> ! {
    eprintln!("{}", msg);
    exit(code)
}

fn fail_unsupported(u: &Unsupported) -> ! {
    die(2, &format!("XLATE-UNSUPPORTED: {}:{}: {}", u.file, u.item, u.why))
}

fn selfcheck(ok: bool, msg: &str) {
    if !ok {
        die(2, &format!("XLATE-SELFCHECK: {}", msg));
    }
}

fn load(src_dir: &Path) -> R<(Vec<Src>, Vec<String>, usize)> {
    let mut names: Vec<String> = match fs::read_dir(src_dir) {
        Ok(rd) => rd
            .filter_map(|e| e.ok())
            .filter(|e| e.path().is_file())
            .map(|e| e.file_name().to_string_lossy().to_string())
            .filter(|n| n.ends_with(".rs"))
            .collect(),
        Err(e) => die(2, &format!("XLATE-IO: cannot read {}: {}", src_dir.display(), e)),
    };
    names.sort();
    let mut srcs = Vec::new();
    let mut skipped = Vec::new();
    let mut stripped = 0;
    for n in names {
        let p = src_dir.join(&n);
        let text = match fs::read_to_string(&p) {
            Ok(t) => t,
            Err(e) => die(2, &format!("XLATE-IO: cannot read {}: {}", p.display(), e)),
        };
        match syn::parse_file(&text) {
            Ok(mut ast) => {
                stripped += strip(&n, &mut ast)?;
                srcs.push(Src { name: n, text, ast });
            }
            Err(e) => {
                if n.ends_with(".template.rs") {
                    // Tera template, not Rust.
                    skipped.push(n);
                } else {
                    return unsup(&n, "<file>", format!("does not parse as Rust: {}", e));
                }
            }
        }
    }
    Ok((srcs, skipped, stripped))
}

/// The fields of the run-time structures (verif_hooks / test items stripped): every piece of state the interpreter has.  A field that is
/// not in the list a property's model was written against is state that model does not cover.
fn state_fields(db: &ty::TypeDb) -> LeanFile {
    const STRUCTS: &[&str] = &[
        "Vm", "ObjFiber", "CallFrame", "ExcHandler", "ObjClass", "ObjInstance", "ObjBoundMethod", "ObjString", "ObjStringStore", "ObjHashMap", "ObjVec", "ObjTuple",
        "ObjRange", "ObjRangeIter", "ObjVecIter", "ObjTupleIter", "ObjStringIter", "ObjUpvalue", "ObjClosure", "ObjFunction", "ObjNative", "ObjModule", "Chunk",
        "Heap", "GcBox", "Stack", "Compiler", "Parser", "Scanner", "CoreClassStore", "ClassDef",
    ];
    let mut l = LeanFile::new("StateFields.lean");
    l.comment("Table J: the fields of the run-time structures, in declaration order: (struct, field, type as written).");
    let mut entries = Vec::new();
    for sname in STRUCTS {
        match db.structs.get(*sname) {
            Some(v) => {
                for (k, sd) in v.iter().enumerate() {
                    let label = if v.len() == 1 { sname.to_string() } else { format!("{}#{}", sname, k) };
                    for (f, t) in &sd.fields {
                        entries.push(format!("({}, {}, {})", lean_str(&label), lean_str(f), lean_str(&format!("{}", t))));
                    }
                }
            }
            None => entries.push(format!("({}, {}, {})", lean_str(sname), lean_str("<struct not found>"), lean_str(""))),
        }
    }
    l.def_list("stateFields", "List (String × String × String)", &entries);
    l
}

fn run(src_dir: &Path, out_dir: &Path) -> R<()> {
    let (srcs, skipped, stripped) = load(src_dir)?;
    let db = ty::TypeDb::build(&srcs);

    let gc = gc::extract(&srcs, &db)?;
    selfcheck(gc.kinds.len() >= 15, &format!("only {} boxed kinds found (expected >= 15)", gc.kinds.len()));

    let opcodes = tables::opcodes(&srcs, &db)?;
    let rules = tables::rules(&srcs, &db)?;
    selfcheck(
        rules.rules.len() == rules.token_kinds.len(),
        &format!(
            "RULES has {} entries but TokenKind has {} variants",
            rules.rules.len(),
            rules.token_kinds.len()
        ),
    );
    let limits = tables::limits(&srcs, &db)?;
    let core = tables::core_source(src_dir)?;
    let panics = sites::panic_sites(&srcs)?;
    let messages = sites::messages(&srcs)?;
    let cfgs = sites::cfg_sites(&srcs)?;

    let fnbodies = fnbody::translate(&srcs, &db, &limits)?;
    let mut lean_files: Vec<(String, String)> = Vec::new();
    lean_files.push(("Fns.lean".to_string(), fnbodies.text.clone()));
    lean_files.push(gc.to_lean().finish());
    lean_files.push(opcodes.to_lean().finish());
    lean_files.push(rules.to_lean().finish());
    lean_files.push(limits.to_lean().finish());
    lean_files.push(core.to_lean().finish());
    lean_files.push(panics.to_lean().finish());
    lean_files.push(messages.to_lean().finish());
    lean_files.push(cfgs.to_lean().finish());
    lean_files.push(state_fields(&db).finish());

    let facts = jobj(vec![
        ("generator", js("xlate")),
        ("source_dir", js(src_dir.display().to_string())),
        (
            "files",
            J::Arr(srcs.iter().map(|s| js(s.name.clone())).collect()),
        ),
        ("files_skipped_not_rust", J::Arr(skipped.iter().map(|s| js(s.clone())).collect())),
        ("stripped_verif_or_test_nodes", jn(stripped)),
        ("gc", gc.to_json()),
        ("opcodes", opcodes.to_json()),
        ("rules", rules.to_json()),
        ("limits", limits.to_json()),
        ("core", core.to_json()),
        ("panic_sites", panics.to_json()),
        ("messages", messages.to_json()),
        ("cfg", cfgs.to_json()),
        (
            "fn_bodies",
            jobj(vec![
                ("translated", J::Arr(fnbodies.names.iter().map(|n| js(n.clone())).collect())),
                (
                    "untranslated",
                    J::Arr(fnbodies.failed.iter().map(|(n, w)| jobj(vec![("fn", js(n.clone())), ("why", js(w.clone()))])).collect()),
                ),
            ]),
        ),
    ]);
    let mut text = String::new();
    facts.write(&mut text, 0);
    text.push('\n');

    if let Err(e) = fs::create_dir_all(out_dir) {
        die(2, &format!("XLATE-IO: cannot create {}: {}", out_dir.display(), e));
    }
    let w = |name: &str, body: &str| {
        let p = out_dir.join(name);
        if let Err(e) = fs::write(&p, body) {
            die(2, &format!("XLATE-IO: cannot write {}: {}", p.display(), e));
        }
    };
    w("facts.json", &text);
    for (n, b) in &lean_files {
        w(n, b);
    }
    Ok(())
}

fn main() {
    let args: Vec<String> = std::env::args().collect();
    if args.len() != 3 {
        die(2, "usage: xlate <src-dir> <out-dir>");
    }
    let src = PathBuf::from(&args[1]);
    let out = PathBuf::from(&args[2]);
    if let Err(u) = run(&src, &out) {
        fail_unsupported(&u);
    }
}
