//! Tables B (opcodes), C (parse rules), D (limits), E (core source / core classes).

use crate::common::*;
use crate::ty::*;
use std::collections::BTreeMap;
use std::path::Path;
use syn::visit::Visit;
use syn::{Expr, Item, Stmt};

fn find_src<'a>(srcs: &'a [Src], name: &str) -> R<&'a Src> {
    match srcs.iter().find(|s| s.name == name) {
        Some(s) => Ok(s),
        None => unsup(name, "<file>", "file not found in source dir"),
    }
}

/// All items of a file including those in nested inline modules, with their module path.
fn all_items<'a>(items: &'a [Item], prefix: &str, out: &mut Vec<(String, &'a Item)>) {
    for i in items {
        out.push((prefix.to_string(), i));
        if let Item::Mod(m) = i {
            if let Some((_, inner)) = &m.content {
                let p = if prefix.is_empty() {
                    m.ident.to_string()
                } else {
                    format!("{}::{}", prefix, m.ident)
                };
                all_items(inner, &p, out);
            }
        }
    }
}

fn last_seg(p: &syn::Path) -> String {
    p.segments.last().map(|s| s.ident.to_string()).unwrap_or_default()
}

fn enum_path_variant(e: &Expr, enum_name: &str) -> Option<String> {
    match e {
        Expr::Path(p) => {
            let segs: Vec<String> = p.path.segments.iter().map(|s| s.ident.to_string()).collect();
            if segs.len() >= 2 && (segs[segs.len() - 2] == enum_name || segs[segs.len() - 2] == "Self") {
                Some(segs[segs.len() - 1].clone())
            } else {
                None
            }
        }
        Expr::Paren(p) => enum_path_variant(&p.expr, enum_name),
        _ => None,
    }
}

fn pat_enum_variant(p: &syn::Pat, enum_name: &str) -> Option<String> {
    match p {
        syn::Pat::Path(pp) => {
            let segs: Vec<String> = pp.path.segments.iter().map(|s| s.ident.to_string()).collect();
            if segs.len() >= 2 && (segs[segs.len() - 2] == enum_name || segs[segs.len() - 2] == "Self") {
                Some(segs[segs.len() - 1].clone())
            } else {
                None
            }
        }
        syn::Pat::Reference(r) => pat_enum_variant(&r.pat, enum_name),
        _ => None,
    }
}

/// Discriminants of a field-less enum, in declaration order.
fn discriminants(file: &str, ed: &EnumDef) -> R<Vec<(String, i128)>> {
    let mut out = Vec::new();
    let mut next: i128 = 0;
    for v in &ed.variants {
        if !v.fields.is_empty() {
            return unsup(file, &format!("enum {}", ed.name), format!("variant {} carries data", v.name));
        }
        if let Some(d) = &v.discriminant {
            let clean = d.trim_end_matches(|c: char| c.is_alphabetic() || c == '_');
            let val = if let Some(h) = clean.strip_prefix("0x") {
                i128::from_str_radix(&h.replace('_', ""), 16).ok()
            } else {
                clean.replace('_', "").parse::<i128>().ok()
            };
            match val {
                Some(x) => next = x,
                None => {
                    return unsup(
                        file,
                        &format!("enum {}::{}", ed.name, v.name),
                        format!("explicit discriminant `{}` is not an integer literal", d),
                    )
                }
            }
        }
        out.push((v.name.clone(), next));
        next += 1;
    }
    Ok(out)
}

// ---------------------------------------------------------------------------------------------
// B

pub struct OpCodes {
    pub ops: Vec<(String, i128, Vec<usize>)>,
    pub from_u8_is_match_table: bool,
    pub from_u8_consistent: bool,
    pub from_u8_fallback: String,
    pub from_u8_arms: Vec<(String, String)>,
}

fn find_impl_fn<'a>(
    db: &'a TypeDb,
    self_head: &str,
    trait_name: Option<&str>,
    fn_name: &str,
    file: &str,
) -> R<&'a syn::ImplItemFn> {
    let mut found = None;
    for im in &db.impls {
        if im.file != file || im.self_ty.head() != Some(self_head) || im.trait_name.as_deref() != trait_name {
            continue;
        }
        if let Some(f) = im.fns.iter().find(|f| f.sig.ident == fn_name) {
            if found.is_some() {
                return unsup(file, &format!("{}::{}", self_head, fn_name), "defined more than once");
            }
            found = Some(f);
        }
    }
    match found {
        Some(f) => Ok(f),
        None => unsup(file, &format!("{}::{}", self_head, fn_name), "function not found"),
    }
}

/// The function body must be a single `match <scrutinee> { … }` expression.
fn single_match<'a>(file: &str, item: &str, f: &'a syn::ImplItemFn) -> R<&'a syn::ExprMatch> {
    if f.block.stmts.len() == 1 {
        if let Stmt::Expr(Expr::Match(m), _) = &f.block.stmts[0] {
            return Ok(m);
        }
    }
    unsup(file, item, "body is not a single match expression")
}

pub fn opcodes(_srcs: &[Src], db: &TypeDb) -> R<OpCodes> {
    let file = "chunk.rs";
    let ed = match db.the_enum("OpCode", "reading opcodes")? {
        Some(e) if e.file == file => e,
        _ => return unsup(file, "enum OpCode", "not found in chunk.rs"),
    };
    let disc = discriminants(file, ed)?;
    for (n, v) in &disc {
        if *v < 0 || *v > 255 {
            return unsup(file, &format!("OpCode::{}", n), "discriminant does not fit a byte");
        }
    }
    // arg_sizes
    let f = find_impl_fn(db, "OpCode", None, "arg_sizes", file)?;
    let m = single_match(file, "OpCode::arg_sizes", f)?;
    if !matches!(toks(&*m.expr).as_str(), "self" | "*self") {
        return unsup(file, "OpCode::arg_sizes", "match scrutinee is not self");
    }
    let mut sizes: BTreeMap<String, Vec<usize>> = BTreeMap::new();
    let mut wildcard: Option<Vec<usize>> = None;
    let parse_sizes = |e: &Expr| -> Option<Vec<usize>> {
        let mut e = e;
        loop {
            match e {
                Expr::Reference(r) => e = &r.expr,
                Expr::Paren(p) => e = &p.expr,
                _ => break,
            }
        }
        match e {
            Expr::Array(a) => a
                .elems
                .iter()
                .map(|x| match x {
                    Expr::Lit(syn::ExprLit {
                        lit: syn::Lit::Int(i), ..
                    }) => i.base10_parse::<usize>().ok(),
                    _ => None,
                })
                .collect(),
            _ => None,
        }
    };
    for arm in &m.arms {
        if arm.guard.is_some() {
            return unsup(file, "OpCode::arg_sizes", "guarded arm");
        }
        let val = match parse_sizes(&arm.body) {
            Some(v) => v,
            None => {
                return unsup(
                    file,
                    "OpCode::arg_sizes",
                    format!("arm body `{}` is not `&[int, …]`", toks(&*arm.body)),
                )
            }
        };
        let pats: Vec<&syn::Pat> = match &arm.pat {
            syn::Pat::Or(o) => o.cases.iter().collect(),
            p => vec![p],
        };
        for p in pats {
            if let syn::Pat::Wild(_) = p {
                wildcard = Some(val.clone());
                continue;
            }
            match pat_enum_variant(p, "OpCode") {
                Some(v) => {
                    if sizes.insert(v.clone(), val.clone()).is_some() {
                        return unsup(file, "OpCode::arg_sizes", format!("variant {} matched twice", v));
                    }
                }
                None => return unsup(file, "OpCode::arg_sizes", format!("pattern `{}` is not OpCode::X", toks(p))),
            }
        }
    }
    let mut ops = Vec::new();
    for (n, v) in &disc {
        let s = match sizes.get(n).or(wildcard.as_ref()) {
            Some(s) => s.clone(),
            None => return unsup(file, "OpCode::arg_sizes", format!("no arm for {}", n)),
        };
        ops.push((n.clone(), *v, s));
    }
    for k in sizes.keys() {
        if !disc.iter().any(|(n, _)| n == k) {
            return unsup(file, "OpCode::arg_sizes", format!("arm for unknown variant {}", k));
        }
    }

    // From<u8>
    let mut res = OpCodes {
        ops,
        from_u8_is_match_table: false,
        from_u8_consistent: false,
        from_u8_fallback: String::new(),
        from_u8_arms: Vec::new(),
    };
    let from = db.impls.iter().find(|im| {
        im.file == file && im.self_ty.head() == Some("OpCode") && im.trait_name.as_deref() == Some("From")
    });
    let from = match from {
        Some(f) => f,
        None => return unsup(file, "impl From<u8> for OpCode", "not found"),
    };
    let f = match from.fns.iter().find(|f| f.sig.ident == "from") {
        Some(f) => f,
        None => return unsup(file, "impl From<u8> for OpCode", "no fn from"),
    };
    let param = match f.sig.inputs.first() {
        Some(syn::FnArg::Typed(pt)) => toks(&*pt.pat),
        _ => return unsup(file, "<OpCode as From<u8>>::from", "unexpected signature"),
    };
    if let Ok(m) = single_match(file, "<OpCode as From<u8>>::from", f) {
        if toks(&*m.expr) == param {
            res.from_u8_is_match_table = true;
            let mut consistent = true;
            let mut covered: Vec<String> = Vec::new();
            for arm in &m.arms {
                match (&arm.pat, &arm.guard) {
                    (syn::Pat::Wild(_), None) => {
                        res.from_u8_fallback = match &*arm.body {
                            Expr::Macro(mm) => format!("{}!", path_to_string(&mm.mac.path)),
                            other => truncate_chars(&toks(other), 60),
                        };
                    }
                    (syn::Pat::Ident(pi), Some((_, g))) => {
                        // `v if v == OpCode::X as u8 => OpCode::X`
                        let bound = pi.ident.to_string();
                        let guard_variant = (|| {
                            let b = match &**g {
                                Expr::Binary(b) if matches!(b.op, syn::BinOp::Eq(_)) => b,
                                _ => return None,
                            };
                            if toks(&*b.left) != bound {
                                return None;
                            }
                            match &*b.right {
                                Expr::Cast(c) if toks(&*c.ty) == "u8" => enum_path_variant(&c.expr, "OpCode"),
                                _ => None,
                            }
                        })();
                        let body_variant = enum_path_variant(&arm.body, "OpCode");
                        match (guard_variant, body_variant) {
                            (Some(g), Some(b)) => {
                                if g != b || covered.contains(&g) {
                                    consistent = false;
                                }
                                covered.push(g.clone());
                                res.from_u8_arms.push((g, b));
                            }
                            _ => {
                                return unsup(
                                    file,
                                    "<OpCode as From<u8>>::from",
                                    format!("arm `{}` is not `v if v == OpCode::X as u8 => OpCode::Y`", truncate_chars(&toks(arm), 100)),
                                )
                            }
                        }
                    }
                    (syn::Pat::Lit(l), None) => {
                        // `7 => OpCode::X`
                        let n = toks(l).parse::<i128>().ok();
                        let body_variant = enum_path_variant(&arm.body, "OpCode");
                        match (n, body_variant) {
                            (Some(n), Some(b)) => {
                                let expect = res.ops.iter().find(|(_, v, _)| *v == n).map(|(nm, _, _)| nm.clone());
                                if expect.as_deref() != Some(b.as_str()) || covered.contains(&b) {
                                    consistent = false;
                                }
                                covered.push(b.clone());
                                res.from_u8_arms.push((n.to_string(), b));
                            }
                            _ => return unsup(file, "<OpCode as From<u8>>::from", "literal arm not understood"),
                        }
                    }
                    _ => {
                        return unsup(
                            file,
                            "<OpCode as From<u8>>::from",
                            format!("arm `{}` not understood", truncate_chars(&toks(arm), 100)),
                        )
                    }
                }
            }
            for (n, _, _) in &res.ops {
                if !covered.contains(n) {
                    consistent = false;
                }
            }
            if res.from_u8_fallback.is_empty() {
                consistent = false;
            }
            res.from_u8_consistent = consistent;
        }
    }
    Ok(res)
}

impl OpCodes {
    pub fn to_json(&self) -> J {
        jobj(vec![
            (
                "opcodes",
                J::Arr(
                    self.ops
                        .iter()
                        .map(|(n, v, s)| {
                            jobj(vec![
                                ("name", js(n.clone())),
                                ("byte", J::Int(*v)),
                                ("arg_sizes", J::Arr(s.iter().map(|x| jn(*x)).collect())),
                            ])
                        })
                        .collect(),
                ),
            ),
            ("from_u8_is_match_table", J::Bool(self.from_u8_is_match_table)),
            ("from_u8_consistent", J::Bool(self.from_u8_consistent)),
            ("from_u8_fallback", js(self.from_u8_fallback.clone())),
            ("from_u8_arm_count", jn(self.from_u8_arms.len())),
        ])
    }

    pub fn to_lean(&self) -> LeanFile {
        let mut l = LeanFile::new("OpCodes.lean");
        l.comment("Table B: (name, byte value, operand sizes) from chunk.rs enum OpCode / OpCode::arg_sizes.");
        l.def_list(
            "opcodes",
            "List (String × Nat × List Nat)",
            &self
                .ops
                .iter()
                .map(|(n, v, s)| format!("({}, {}, {})", lean_str(n), v, lean_nat_list(s)))
                .collect::<Vec<_>>(),
        );
        l.comment("");
        l.comment("From<u8> for OpCode is a match table `v if v == OpCode::X as u8 => OpCode::X` covering every variant once, plus a fallback arm.");
        l.def_scalar("fromU8IsMatchTable", "Bool", lean_bool(self.from_u8_is_match_table));
        l.def_scalar("fromU8Consistent", "Bool", lean_bool(self.from_u8_consistent));
        l.def_scalar("fromU8Fallback", "String", &lean_str(&self.from_u8_fallback));
        l
    }
}

// ---------------------------------------------------------------------------------------------
// C

pub struct Rules {
    pub token_kinds: Vec<String>,
    pub precedences: Vec<String>,
    /// (token kind, prefix, infix, precedence)
    pub rules: Vec<(String, Option<String>, Option<String>, String)>,
    pub infix_recursion: Vec<(String, String)>,
    pub declared_len: String,
    pub index_exprs: Vec<String>,
    pub comments_agree: Option<bool>,
    pub comment_mismatches: Vec<String>,
}

struct RulesIndexFinder {
    found: Vec<(String, String, Vec<(String, String)>)>, // (fn, index expr text, params)
    cur_fn: Vec<(String, Vec<(String, String)>)>,
}

impl<'ast> Visit<'ast> for RulesIndexFinder {
    fn visit_impl_item_fn(&mut self, f: &'ast syn::ImplItemFn) {
        let params = f
            .sig
            .inputs
            .iter()
            .filter_map(|a| match a {
                syn::FnArg::Typed(pt) => Some((toks(&*pt.pat), toks(&*pt.ty))),
                _ => None,
            })
            .collect();
        self.cur_fn.push((f.sig.ident.to_string(), params));
        syn::visit::visit_impl_item_fn(self, f);
        self.cur_fn.pop();
    }
    fn visit_item_fn(&mut self, f: &'ast syn::ItemFn) {
        let params = f
            .sig
            .inputs
            .iter()
            .filter_map(|a| match a {
                syn::FnArg::Typed(pt) => Some((toks(&*pt.pat), toks(&*pt.ty))),
                _ => None,
            })
            .collect();
        self.cur_fn.push((f.sig.ident.to_string(), params));
        syn::visit::visit_item_fn(self, f);
        self.cur_fn.pop();
    }
    fn visit_expr_index(&mut self, i: &'ast syn::ExprIndex) {
        if toks(&*i.expr) == "RULES" {
            let (f, p) = self.cur_fn.last().cloned().unwrap_or_default();
            self.found.push((f, toks(&*i.index), p));
        }
        syn::visit::visit_expr_index(self, i);
    }
    fn visit_expr_path(&mut self, p: &'ast syn::ExprPath) {
        // Any other mention of RULES (passing it around) would defeat the indexing check.
        if path_to_string(&p.path) == "RULES" {
            let (f, _) = self.cur_fn.last().cloned().unwrap_or_default();
            self.found.push((f, "<path>".into(), vec![]));
        }
    }
}

struct PrecCalls {
    calls: Vec<String>,
    lets: BTreeMap<String, String>,
}

impl<'ast> Visit<'ast> for PrecCalls {
    fn visit_local(&mut self, l: &'ast syn::Local) {
        if let (syn::Pat::Ident(pi), Some(init)) = (&l.pat, &l.init) {
            self.lets.insert(pi.ident.to_string(), toks(&*init.expr));
        }
        syn::visit::visit_local(self, l);
    }
    fn visit_expr_method_call(&mut self, mc: &'ast syn::ExprMethodCall) {
        if mc.method == "parse_precedence" && mc.args.len() == 1 {
            let a = &mc.args[0];
            let text = toks(a);
            let cls = if let Some(v) = enum_path_variant(a, "Precedence") {
                v
            } else {
                // Precedence::from(<x> as usize + 1) where x is (bound to) `….precedence`
                let mut r = "?".to_string();
                if let Expr::Call(c) = a {
                    if toks(&*c.func) == "Precedence::from" && c.args.len() == 1 {
                        if let Expr::Binary(b) = &c.args[0] {
                            if matches!(b.op, syn::BinOp::Add(_)) && toks(&*b.right) == "1" {
                                if let Expr::Cast(cast) = &*b.left {
                                    let inner = toks(&*cast.expr);
                                    let resolved = self.lets.get(&inner).cloned().unwrap_or(inner);
                                    if resolved.ends_with(".precedence") && toks(&*cast.ty) == "usize" {
                                        r = "rule+1".to_string();
                                    }
                                }
                            }
                        }
                    }
                }
                let _ = text;
                r
            };
            self.calls.push(cls);
        }
        syn::visit::visit_expr_method_call(self, mc);
    }
}

pub fn rules(srcs: &[Src], db: &TypeDb) -> R<Rules> {
    let tk = match db.the_enum("TokenKind", "reading token kinds")? {
        Some(e) if e.file == "scanner.rs" => e,
        _ => return unsup("scanner.rs", "enum TokenKind", "not found"),
    };
    let tk_disc = discriminants("scanner.rs", tk)?;
    for (i, (n, v)) in tk_disc.iter().enumerate() {
        if *v != i as i128 {
            return unsup("scanner.rs", &format!("TokenKind::{}", n), "explicit discriminant breaks index = position");
        }
    }
    let token_kinds: Vec<String> = tk_disc.iter().map(|(n, _)| n.clone()).collect();

    let pe = match db.the_enum("Precedence", "reading precedences")? {
        Some(e) if e.file == "compiler.rs" => e,
        _ => return unsup("compiler.rs", "enum Precedence", "not found"),
    };
    let p_disc = discriminants("compiler.rs", pe)?;
    for (i, (n, v)) in p_disc.iter().enumerate() {
        if *v != i as i128 {
            return unsup("compiler.rs", &format!("Precedence::{}", n), "explicit discriminant breaks order");
        }
    }
    let precedences: Vec<String> = p_disc.iter().map(|(n, _)| n.clone()).collect();

    let src = find_src(srcs, "compiler.rs")?;
    let mut items = Vec::new();
    all_items(&src.ast.items, "", &mut items);
    let rules_item = items.iter().find_map(|(_, i)| match i {
        Item::Const(c) if c.ident == "RULES" => Some(c),
        _ => None,
    });
    let rc = match rules_item {
        Some(c) => c,
        None => return unsup("compiler.rs", "const RULES", "not found"),
    };
    let declared_len = match &*rc.ty {
        syn::Type::Array(a) => toks(&a.len),
        _ => return unsup("compiler.rs", "const RULES", "type is not an array"),
    };
    let arr = match &*rc.expr {
        Expr::Array(a) => a,
        _ => return unsup("compiler.rs", "const RULES", "initialiser is not an array literal"),
    };
    let handler = |e: &Expr, what: &str, idx: usize| -> R<Option<String>> {
        match e {
            Expr::Path(p) if last_seg(&p.path) == "None" && p.path.segments.len() == 1 => Ok(None),
            Expr::Call(c) if toks(&*c.func) == "Some" && c.args.len() == 1 => match &c.args[0] {
                Expr::Path(p) => Ok(Some(last_seg(&p.path))),
                other => unsup(
                    "compiler.rs",
                    &format!("RULES[{}].{}", idx, what),
                    format!("handler `{}` is not a function path", toks(other)),
                ),
            },
            other => unsup(
                "compiler.rs",
                &format!("RULES[{}].{}", idx, what),
                format!("`{}` is neither None nor Some(path)", toks(other)),
            ),
        }
    };
    let mut entries = Vec::new();
    for (idx, e) in arr.elems.iter().enumerate() {
        let st = match e {
            Expr::Struct(s) if last_seg(&s.path) == "ParseRule" && s.rest.is_none() => s,
            other => {
                return unsup(
                    "compiler.rs",
                    &format!("RULES[{}]", idx),
                    format!("entry `{}` is not a ParseRule {{…}} literal", truncate_chars(&toks(other), 80)),
                )
            }
        };
        let mut prefix = None;
        let mut infix = None;
        let mut prec = None;
        for fv in &st.fields {
            let name = match &fv.member {
                syn::Member::Named(i) => i.to_string(),
                _ => String::new(),
            };
            match name.as_str() {
                "prefix" => prefix = Some(handler(&fv.expr, "prefix", idx)?),
                "infix" => infix = Some(handler(&fv.expr, "infix", idx)?),
                "precedence" => match enum_path_variant(&fv.expr, "Precedence") {
                    Some(v) => prec = Some(v),
                    None => {
                        return unsup(
                            "compiler.rs",
                            &format!("RULES[{}].precedence", idx),
                            format!("`{}` is not Precedence::X", toks(&fv.expr)),
                        )
                    }
                },
                other => return unsup("compiler.rs", &format!("RULES[{}]", idx), format!("unknown field {}", other)),
            }
        }
        match (prefix, infix, prec) {
            (Some(p), Some(i), Some(pr)) => {
                if !precedences.contains(&pr) {
                    return unsup("compiler.rs", &format!("RULES[{}]", idx), format!("unknown precedence {}", pr));
                }
                entries.push((p, i, pr))
            }
            _ => return unsup("compiler.rs", &format!("RULES[{}]", idx), "missing prefix/infix/precedence"),
        }
    }
    if declared_len.parse::<usize>().ok() != Some(entries.len()) {
        return unsup(
            "compiler.rs",
            "const RULES",
            format!("declared length {} but {} entries", declared_len, entries.len()),
        );
    }

    // How is RULES indexed?
    let mut finder = RulesIndexFinder {
        found: Vec::new(),
        cur_fn: Vec::new(),
    };
    finder.visit_file(&src.ast);
    let mut index_exprs = Vec::new();
    let mut saw_index = false;
    for (f, idx, params) in &finder.found {
        if idx == "<path>" {
            continue;
        }
        saw_index = true;
        // `<ident> as usize` where ident is a parameter of type TokenKind
        let ok = idx
            .strip_suffix(" as usize")
            .map(|id| params.iter().any(|(p, t)| p == id && t == "TokenKind"))
            .unwrap_or(false);
        if !ok {
            return unsup(
                "compiler.rs",
                &format!("{} (RULES[{}])", f, idx),
                "RULES is indexed by something other than `<TokenKind parameter> as usize`",
            );
        }
        index_exprs.push(format!("{}: RULES[{}]", f, idx));
    }
    let n_paths = finder.found.iter().filter(|(_, i, _)| i == "<path>").count();
    let n_idx = finder.found.iter().filter(|(_, i, _)| i != "<path>").count();
    if !saw_index || n_paths != n_idx {
        return unsup(
            "compiler.rs",
            "const RULES",
            "RULES is used other than through direct indexing; cannot tell which TokenKind an entry belongs to",
        );
    }

    let n = entries.len().min(token_kinds.len());
    let mut rules = Vec::new();
    for (i, (p, inf, pr)) in entries.iter().enumerate() {
        let tk = if i < n { token_kinds[i].clone() } else { format!("<no TokenKind #{}>", i) };
        rules.push((tk, p.clone(), inf.clone(), pr.clone()));
    }

    // Comment cross-check (raw text): `// Name` before each entry.
    let mut comments_agree = None;
    let mut comment_mismatches = Vec::new();
    if let Some(start) = src.text.find("const RULES") {
        let tail = &src.text[start..];
        if let Some(end) = tail.find("\n];") {
            let body = &tail[..end];
            let names: Vec<String> = body
                .lines()
                .map(|l| l.trim())
                .filter(|l| l.starts_with("//"))
                .map(|l| l.trim_start_matches('/').trim().to_string())
                .collect();
            if names.len() == entries.len() && entries.len() == token_kinds.len() {
                let mut ok = true;
                for (i, c) in names.iter().enumerate() {
                    let t = &token_kinds[i];
                    if c != t && c != t.trim_end_matches('_') {
                        ok = false;
                        comment_mismatches.push(format!("#{}: comment '{}' vs TokenKind::{}", i, c, t));
                    }
                }
                comments_agree = Some(ok);
            }
        }
    }

    // Infix recursion
    let mut infix_names: Vec<String> = rules.iter().filter_map(|r| r.2.clone()).collect();
    infix_names.sort();
    infix_names.dedup();
    let mut infix_recursion = Vec::new();
    for name in infix_names {
        let mut found: Option<&syn::ImplItemFn> = None;
        for im in &db.impls {
            if im.file == "compiler.rs" && im.trait_name.is_none() && im.self_ty.head() == Some("Parser") {
                if let Some(f) = im.fns.iter().find(|f| f.sig.ident == name) {
                    if found.is_some() {
                        return unsup("compiler.rs", &format!("Parser::{}", name), "defined more than once");
                    }
                    found = Some(f);
                }
            }
        }
        let f = match found {
            Some(f) => f,
            None => return unsup("compiler.rs", &format!("Parser::{}", name), "infix handler not found in impl Parser"),
        };
        let mut pc = PrecCalls {
            calls: Vec::new(),
            lets: BTreeMap::new(),
        };
        pc.visit_block(&f.block);
        let v = if pc.calls.is_empty() {
            "none".to_string()
        } else {
            let mut c = pc.calls.clone();
            c.dedup();
            c.join("|")
        };
        infix_recursion.push((name, v));
    }

    Ok(Rules {
        token_kinds,
        precedences,
        rules,
        infix_recursion,
        declared_len,
        index_exprs,
        comments_agree,
        comment_mismatches,
    })
}

impl Rules {
    pub fn to_json(&self) -> J {
        jobj(vec![
            ("token_kinds", J::Arr(self.token_kinds.iter().map(|s| js(s.clone())).collect())),
            ("precedences", J::Arr(self.precedences.iter().map(|s| js(s.clone())).collect())),
            (
                "rules",
                J::Arr(
                    self.rules
                        .iter()
                        .map(|(t, p, i, pr)| {
                            jobj(vec![
                                ("token", js(t.clone())),
                                ("prefix", p.clone().map(js).unwrap_or(J::Null)),
                                ("infix", i.clone().map(js).unwrap_or(J::Null)),
                                ("precedence", js(pr.clone())),
                            ])
                        })
                        .collect(),
                ),
            ),
            (
                "infix_recursion",
                J::Arr(
                    self.infix_recursion
                        .iter()
                        .map(|(f, r)| jobj(vec![("handler", js(f.clone())), ("recurses_with", js(r.clone()))]))
                        .collect(),
                ),
            ),
            ("rules_declared_len", js(self.declared_len.clone())),
            ("rules_index_sites", J::Arr(self.index_exprs.iter().map(|s| js(s.clone())).collect())),
            (
                "rules_comments_agree",
                match self.comments_agree {
                    Some(b) => J::Bool(b),
                    None => J::Null,
                },
            ),
            (
                "rules_comment_mismatches",
                J::Arr(self.comment_mismatches.iter().map(|s| js(s.clone())).collect()),
            ),
        ])
    }

    pub fn to_lean(&self) -> LeanFile {
        let mut l = LeanFile::new("Rules.lean");
        l.comment("Table C: scanner token kinds, compiler precedences and the Pratt RULES table.");
        l.comment("RULES is only ever used as RULES[kind as usize] with kind : TokenKind, so entry i belongs to tokenKinds[i].");
        l.def_list(
            "tokenKinds",
            "List String",
            &self.token_kinds.iter().map(|s| lean_str(s)).collect::<Vec<_>>(),
        );
        l.def_list(
            "precedences",
            "List String",
            &self.precedences.iter().map(|s| lean_str(s)).collect::<Vec<_>>(),
        );
        l.def_list(
            "rules",
            "List (String × Option String × Option String × String)",
            &self
                .rules
                .iter()
                .map(|(t, p, i, pr)| format!("({}, {}, {}, {})", lean_str(t), lean_opt_str(p), lean_opt_str(i), lean_str(pr)))
                .collect::<Vec<_>>(),
        );
        l.comment("");
        l.comment("Per infix handler: the precedence its body passes to parse_precedence (direct calls only).");
        l.comment("\"rule+1\" = Precedence::from(rule.precedence as usize + 1); \"none\" = no direct parse_precedence call; \"?\" = unclassified argument.");
        l.def_list(
            "infixRecursion",
            "List (String × String)",
            &self
                .infix_recursion
                .iter()
                .map(|(f, r)| format!("({}, {})", lean_str(f), lean_str(r)))
                .collect::<Vec<_>>(),
        );
        l.def_scalar(
            "rulesCommentsAgree",
            "Bool",
            lean_bool(self.comments_agree.unwrap_or(false)),
        );
        l
    }
}

// ---------------------------------------------------------------------------------------------
// D

pub struct Limits {
    pub entries: Vec<(String, i128, String)>, // name, value, origin
    pub stack_const: String,
    pub notes: Vec<String>,
}

struct ConstEnv<'a> {
    consts: BTreeMap<String, (&'a syn::ItemConst, String)>, // name -> (item, file)
}

impl<'a> ConstEnv<'a> {
    fn eval(&self, file: &str, item: &str, e: &Expr, depth: usize) -> R<i128> {
        if depth > 16 {
            return unsup(file, item, "constant expression nesting too deep");
        }
        match e {
            Expr::Paren(p) => self.eval(file, item, &p.expr, depth + 1),
            Expr::Group(p) => self.eval(file, item, &p.expr, depth + 1),
            Expr::Lit(syn::ExprLit {
                lit: syn::Lit::Int(i), ..
            }) => i
                .base10_parse::<i128>()
                .or_else(|_| unsup(file, item, format!("integer literal {} out of range", i))),
            Expr::Cast(c) => {
                let t = toks(&*c.ty);
                if matches!(t.as_str(), "usize" | "u64" | "i64" | "isize" | "u128" | "i128") {
                    self.eval(file, item, &c.expr, depth + 1)
                } else {
                    unsup(file, item, format!("cast to {} may truncate; not evaluated", t))
                }
            }
            Expr::Unary(u) if matches!(u.op, syn::UnOp::Neg(_)) => Ok(-self.eval(file, item, &u.expr, depth + 1)?),
            Expr::Binary(b) => {
                let l = self.eval(file, item, &b.left, depth + 1)?;
                let r = self.eval(file, item, &b.right, depth + 1)?;
                let v = match b.op {
                    syn::BinOp::Add(_) => l.checked_add(r),
                    syn::BinOp::Sub(_) => l.checked_sub(r),
                    syn::BinOp::Mul(_) => l.checked_mul(r),
                    syn::BinOp::Div(_) if r != 0 => Some(l / r),
                    syn::BinOp::Shl(_) if (0..100).contains(&r) => l.checked_shl(r as u32),
                    _ => return unsup(file, item, format!("operator in `{}` not supported", toks(b))),
                };
                v.ok_or(Unsupported {
                    file: file.into(),
                    item: item.into(),
                    why: "arithmetic overflow while evaluating constant".into(),
                })
            }
            Expr::Path(p) => {
                let segs: Vec<String> = p.path.segments.iter().map(|s| s.ident.to_string()).collect();
                let text = segs.join("::");
                match text.as_str() {
                    "u8::MAX" => return Ok(u8::MAX as i128),
                    "u16::MAX" => return Ok(u16::MAX as i128),
                    "u32::MAX" => return Ok(u32::MAX as i128),
                    "u64::MAX" | "usize::MAX" => return Ok(u64::MAX as i128),
                    "i64::MAX" | "isize::MAX" => return Ok(i64::MAX as i128),
                    "i32::MAX" => return Ok(i32::MAX as i128),
                    _ => {}
                }
                let name = segs.last().unwrap();
                match self.consts.get(name) {
                    Some((c, f)) => self.eval(f, &format!("const {}", name), &c.expr, depth + 1),
                    None => unsup(file, item, format!("`{}` is not a known constant", text)),
                }
            }
            other => unsup(file, item, format!("constant expression `{}` not supported", toks(other))),
        }
    }
}

fn gcd(a: u128, b: u128) -> u128 {
    if b == 0 {
        a
    } else {
        gcd(b, a % b)
    }
}

pub fn limits(srcs: &[Src], db: &TypeDb) -> R<Limits> {
    let mut per_file: BTreeMap<String, Vec<(String, &syn::ItemConst)>> = BTreeMap::new();
    for fname in ["common.rs", "vm.rs", "object.rs"] {
        let src = find_src(srcs, fname)?;
        let mut items = Vec::new();
        all_items(&src.ast.items, "", &mut items);
        let v = per_file.entry(fname.to_string()).or_default();
        for (m, i) in items {
            if let Item::Const(c) = i {
                v.push((m, c));
            }
        }
    }
    let mut env = ConstEnv {
        consts: BTreeMap::new(),
    };
    for (f, v) in &per_file {
        for (_, c) in v {
            let name = c.ident.to_string();
            if env.consts.insert(name.clone(), (*c, f.clone())).is_some() {
                return unsup(f, &format!("const {}", name), "constant name defined in more than one of common.rs/vm.rs/object.rs");
            }
        }
    }
    let mut entries: Vec<(String, i128, String)> = Vec::new();
    let mut notes = vec!["usize/isize taken as 64-bit".to_string()];
    // common.rs: every pub const
    for (_, c) in &per_file["common.rs"] {
        if !matches!(c.vis, syn::Visibility::Public(_)) {
            continue;
        }
        let name = c.ident.to_string();
        let v = env.eval("common.rs", &format!("const {}", name), &c.expr, 0)?;
        entries.push((name, v, "common.rs".into()));
    }
    // vm.rs: required names
    for req in ["RANGE_CACHE_SIZE", "INIT_CAPACITY"] {
        match per_file["vm.rs"].iter().find(|(_, c)| c.ident == req) {
            Some((m, c)) => {
                let v = env.eval("vm.rs", &format!("const {}", req), &c.expr, 0)?;
                let origin = if m.is_empty() { "vm.rs".to_string() } else { format!("vm.rs::{}", m) };
                entries.push((req.to_string(), v, origin));
            }
            None => return unsup("vm.rs", &format!("const {}", req), "not found"),
        }
    }
    match per_file["vm.rs"].iter().find(|(_, c)| c.ident == "MAX_LOAD") {
        Some((m, c)) => {
            let lit = match &*c.expr {
                Expr::Lit(syn::ExprLit {
                    lit: syn::Lit::Float(f), ..
                }) => f.base10_digits().to_string(),
                Expr::Lit(syn::ExprLit {
                    lit: syn::Lit::Int(i), ..
                }) => i.base10_digits().to_string(),
                other => {
                    return unsup("vm.rs", "const MAX_LOAD", format!("`{}` is not a numeric literal", toks(other)))
                }
            };
            if lit.contains('e') || lit.contains('E') {
                return unsup("vm.rs", "const MAX_LOAD", "exponent notation not supported");
            }
            let (ip, fp) = match lit.split_once('.') {
                Some((a, b)) => (a.to_string(), b.to_string()),
                None => (lit.clone(), String::new()),
            };
            let num: u128 = format!("{}{}", ip, fp).parse().map_err(|_| Unsupported {
                file: "vm.rs".into(),
                item: "const MAX_LOAD".into(),
                why: "literal too long".into(),
            })?;
            let den: u128 = 10u128.pow(fp.len() as u32);
            let g = gcd(num, den).max(1);
            let origin = if m.is_empty() { "vm.rs".to_string() } else { format!("vm.rs::{}", m) };
            entries.push(("MAX_LOAD_NUM".into(), (num / g) as i128, origin.clone()));
            entries.push(("MAX_LOAD_DEN".into(), (den / g) as i128, origin));
            notes.push(format!("MAX_LOAD literal = {}", lit));
        }
        None => return unsup("vm.rs", "const MAX_LOAD", "not found"),
    }
    // object.rs: the const used as the size parameter of the fiber's Stack<…>
    let fiber = match db.the_struct("ObjFiber", "finding the stack size constant")? {
        Some(s) => s,
        None => return unsup("object.rs", "struct ObjFiber", "not found"),
    };
    let mut stack_const = None;
    for (_, t) in &fiber.fields {
        if let Ty::Path { name, args } = t {
            if name == "Stack" && args.len() == 2 {
                stack_const = Some(args[1].to_string());
            }
        }
    }
    let stack_const = match stack_const {
        Some(s) => s,
        None => return unsup("object.rs", "struct ObjFiber", "no Stack<_, N> field found"),
    };
    match per_file["object.rs"].iter().find(|(_, c)| c.ident == stack_const.as_str()) {
        Some((_, c)) => {
            let v = env.eval("object.rs", &format!("const {}", stack_const), &c.expr, 0)?;
            entries.push((stack_const.clone(), v, "object.rs".into()));
        }
        None => {
            return unsup(
                "object.rs",
                &format!("const {}", stack_const),
                "stack size parameter is not a constant defined in object.rs",
            )
        }
    }
    Ok(Limits {
        entries,
        stack_const,
        notes,
    })
}

impl Limits {
    pub fn to_json(&self) -> J {
        jobj(vec![
            (
                "limits",
                J::Arr(
                    self.entries
                        .iter()
                        .map(|(n, v, o)| jobj(vec![("name", js(n.clone())), ("value", J::Int(*v)), ("origin", js(o.clone()))]))
                        .collect(),
                ),
            ),
            ("stack_size_const", js(self.stack_const.clone())),
            ("notes", J::Arr(self.notes.iter().map(|s| js(s.clone())).collect())),
        ])
    }

    pub fn to_lean(&self) -> LeanFile {
        let mut l = LeanFile::new("Limits.lean");
        l.comment("Table D: numeric limits (usize/isize taken as 64-bit). MAX_LOAD = MAX_LOAD_NUM / MAX_LOAD_DEN.");
        l.def_list(
            "limits",
            "List (String × Int)",
            &self
                .entries
                .iter()
                .map(|(n, v, _)| format!("({}, {})", lean_str(n), v))
                .collect::<Vec<_>>(),
        );
        l.def_scalar("stackSizeConst", "String", &lean_str(&self.stack_const));
        l
    }
}

// ---------------------------------------------------------------------------------------------
// E

pub struct Core {
    pub source: String,
    /// (name, repr, kind, superclass, metaclass)
    pub classes: Vec<(String, String, String, String, String)>,
}

pub fn core_source(src_dir: &Path) -> R<Core> {
    let source = match std::fs::read_to_string(src_dir.join("core.yl")) {
        Ok(s) => s,
        Err(e) => return unsup("core.yl", "<file>", format!("cannot read: {}", e)),
    };
    let yaml = match std::fs::read_to_string(src_dir.join("class_store.yaml")) {
        Ok(s) => s,
        Err(e) => return unsup("class_store.yaml", "<file>", format!("cannot read: {}", e)),
    };
    let mut classes: Vec<BTreeMap<String, String>> = Vec::new();
    for (ln, raw) in yaml.lines().enumerate() {
        let item = format!("line {}", ln + 1);
        let line = match raw.find('#') {
            // comments: only whole-line or preceded by whitespace; values here never contain '#'
            Some(p) if raw[..p].trim().is_empty() || raw[..p].ends_with(' ') => &raw[..p],
            _ => raw,
        };
        if line.trim().is_empty() {
            continue;
        }
        let (is_new, rest) = if let Some(r) = line.strip_prefix("- ") {
            (true, r)
        } else if let Some(r) = line.strip_prefix("  ") {
            (false, r)
        } else {
            return unsup("class_store.yaml", &item, format!("unexpected layout: `{}`", raw));
        };
        if rest.starts_with(' ') || rest.starts_with('-') {
            return unsup("class_store.yaml", &item, format!("nested structure not supported: `{}`", raw));
        }
        let (k, v) = match rest.split_once(':') {
            Some((k, v)) => (k.trim().to_string(), v.trim().to_string()),
            None => return unsup("class_store.yaml", &item, format!("not a `key: value` line: `{}`", raw)),
        };
        let v = v.trim_matches(|c| c == '"' || c == '\'').to_string();
        if !matches!(k.as_str(), "name" | "repr" | "kind" | "superclass" | "metaclass") {
            return unsup("class_store.yaml", &item, format!("unknown key '{}'", k));
        }
        if is_new {
            classes.push(BTreeMap::new());
        }
        match classes.last_mut() {
            Some(c) => {
                if c.insert(k.clone(), v).is_some() {
                    return unsup("class_store.yaml", &item, format!("duplicate key '{}'", k));
                }
            }
            None => return unsup("class_store.yaml", &item, "key before the first list entry"),
        }
    }
    let mut out = Vec::new();
    for (i, c) in classes.iter().enumerate() {
        let g = |k: &str| c.get(k).cloned().unwrap_or_default();
        if g("name").is_empty() || g("kind").is_empty() {
            return unsup("class_store.yaml", &format!("entry #{}", i), "missing name or kind");
        }
        if !matches!(g("kind").as_str(), "native_value" | "native_object" | "yarel") {
            return unsup("class_store.yaml", &format!("entry {}", g("name")), format!("unknown kind '{}'", g("kind")));
        }
        out.push((g("name"), g("repr"), g("kind"), g("superclass"), g("metaclass")));
    }
    Ok(Core { source, classes: out })
}

impl Core {
    pub fn to_json(&self) -> J {
        jobj(vec![
            ("core_source_bytes", jn(self.source.len())),
            ("core_source_lines", jn(self.source.lines().count())),
            (
                "core_classes",
                J::Arr(
                    self.classes
                        .iter()
                        .map(|(n, r, k, s, m)| {
                            jobj(vec![
                                ("name", js(n.clone())),
                                ("repr", js(r.clone())),
                                ("kind", js(k.clone())),
                                ("superclass", js(s.clone())),
                                ("metaclass", js(m.clone())),
                            ])
                        })
                        .collect(),
                ),
            ),
        ])
    }

    pub fn to_lean(&self) -> LeanFile {
        let mut l = LeanFile::new("CoreSource.lean");
        l.comment("Table E: core.yl verbatim and the class_store.yaml entries (name, repr, kind, superclass).");
        l.def_scalar("coreSource", "String", &format!("\n  {}", lean_str(&self.source)));
        l.def_list(
            "coreClasses",
            "List (String × String × String × String)",
            &self
                .classes
                .iter()
                .map(|(n, r, k, s, _)| format!("({}, {}, {}, {})", lean_str(n), lean_str(r), lean_str(k), lean_str(s)))
                .collect::<Vec<_>>(),
        );
        l.comment("");
        l.comment("Entries of class_store.yaml that name a metaclass: (class, metaclass).");
        l.def_list(
            "coreMetaclasses",
            "List (String × String)",
            &self
                .classes
                .iter()
                .filter(|c| !c.4.is_empty())
                .map(|(n, _, _, _, m)| format!("({}, {})", lean_str(n), lean_str(m)))
                .collect::<Vec<_>>(),
        );
        l
    }
}
