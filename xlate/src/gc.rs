//! Table A: the GC schema (boxed kinds, pointer-bearing field paths, composed mark/blacken ops).

use crate::common::*;
use crate::ty::*;
use std::collections::{BTreeMap, BTreeSet};
use syn::visit::Visit;
use syn::{Expr, Pat, Stmt};

pub const WRAPPERS: [&str; 3] = ["Gc", "Root", "UniqueRoot"];
/// Files whose `impl GcManaged for …` are considered (others have none today; any impl found
/// elsewhere is reported as unsupported so nothing is silently missed).
pub const GC_FILES: [&str; 6] = ["memory.rs", "object.rs", "value.rs", "chunk.rs", "stack.rs", "vm.rs"];

const POINTER_FREE: [&str; 24] = [
    "bool", "u8", "u16", "u32", "u64", "u128", "usize", "i8", "i16", "i32", "i64", "i128", "isize",
    "f32", "f64", "char", "String", "str", "PhantomPinned", "PhantomData", "Instant", "Duration",
    "Colour", "Ordering",
];

#[derive(Debug, Clone)]
pub struct Kind {
    pub id: usize,
    pub name: String,
    /// The payload type without the RefCell layer, e.g. `ObjBoundMethod<ObjNative>`.
    pub data_ty: Ty,
    /// Full types found inside Gc/Root/UniqueRoot, e.g. `RefCell<ObjVec>`.
    pub boxed_as: BTreeSet<Ty>,
    /// Which wrappers it was seen in.
    pub seen_in: BTreeSet<String>,
}

#[derive(Debug, Clone, PartialEq, Eq)]
pub enum Leaf {
    Gc(String),
    Value,
    Raw,
}

#[derive(Debug, Clone)]
pub struct Field {
    pub id: usize,
    pub name: String,
    pub shape: String,
    pub leaf: Leaf,
    pub ty: String,
    pub targets: Vec<usize>,
}

#[derive(Debug, Clone, Copy, PartialEq, Eq)]
pub enum Op {
    Mark,
    Blacken,
}

impl Op {
    pub fn name(self) -> &'static str {
        match self {
            Op::Mark => "mark",
            Op::Blacken => "blacken",
        }
    }
}

#[derive(Debug, Clone)]
pub struct RawOp {
    pub path: String,
    pub target: usize,
    pub op: Op,
    pub via: Vec<String>,
    pub restrict: Option<String>,
}

#[derive(Debug, Clone)]
pub struct TraceOp {
    pub field: usize,
    pub target: usize,
    pub op: Op,
    pub via: Vec<String>,
    pub restrict: Option<String>,
}

pub struct GcBoxMethod {
    pub method: String,
    pub colour_written: String,
    pub colour_compared: String,
    pub data_call: String,
}

pub struct GcSchema {
    pub kinds: Vec<Kind>,
    pub all_fields: Vec<Vec<(String, String)>>,
    pub fields: Vec<Vec<Field>>,
    pub mark_ops: Vec<Vec<TraceOp>>,
    pub blacken_ops: Vec<Vec<TraceOp>>,
    pub value_kinds: Vec<usize>,
    /// (variant name, kind id or None)
    pub value_variants: Vec<(String, Option<usize>)>,
    pub leaf_ops: Vec<(String, String, String)>,
    pub gcbox: Vec<GcBoxMethod>,
    pub managed_impls: Vec<(String, String)>,
}

// ---------------------------------------------------------------------------------------------
// A1: kind discovery

struct TypeCollector {
    scope: Vec<Vec<String>>,
    found: Vec<(String, Ty)>, // (wrapper, inner type)
}

impl TypeCollector {
    fn in_scope(&self) -> Vec<String> {
        self.scope.iter().flatten().cloned().collect()
    }

    fn scan(&mut self, t: &Ty) {
        match t {
            Ty::Path { name, args } => {
                if WRAPPERS.contains(&name.as_str()) && args.len() == 1 {
                    let generics = self.in_scope();
                    let inner = &args[0];
                    let is_dyn = matches!(inner, Ty::Other(_));
                    if !inner.mentions_any(&generics) && !is_dyn {
                        self.found.push((name.clone(), inner.clone()));
                    }
                }
                for a in args {
                    self.scan(a);
                }
            }
            Ty::RawPtr { inner, .. } => self.scan(inner),
            Ty::Ref(t) | Ty::Slice(t) | Ty::Array(t, _) => self.scan(t),
            Ty::Tuple(v) => v.iter().for_each(|t| self.scan(t)),
            _ => {}
        }
    }
}

macro_rules! scoped {
    ($self:ident, $generics:expr, $body:expr) => {{
        $self.scope.push(generic_names($generics));
        $body;
        $self.scope.pop();
    }};
}

impl<'ast> Visit<'ast> for TypeCollector {
    fn visit_item_fn(&mut self, i: &'ast syn::ItemFn) {
        scoped!(self, &i.sig.generics, syn::visit::visit_item_fn(self, i))
    }
    fn visit_item_impl(&mut self, i: &'ast syn::ItemImpl) {
        scoped!(self, &i.generics, syn::visit::visit_item_impl(self, i))
    }
    fn visit_impl_item_fn(&mut self, i: &'ast syn::ImplItemFn) {
        scoped!(self, &i.sig.generics, syn::visit::visit_impl_item_fn(self, i))
    }
    fn visit_item_struct(&mut self, i: &'ast syn::ItemStruct) {
        scoped!(self, &i.generics, syn::visit::visit_item_struct(self, i))
    }
    fn visit_item_enum(&mut self, i: &'ast syn::ItemEnum) {
        scoped!(self, &i.generics, syn::visit::visit_item_enum(self, i))
    }
    fn visit_item_type(&mut self, i: &'ast syn::ItemType) {
        scoped!(self, &i.generics, syn::visit::visit_item_type(self, i))
    }
    fn visit_item_trait(&mut self, i: &'ast syn::ItemTrait) {
        scoped!(self, &i.generics, syn::visit::visit_item_trait(self, i))
    }
    fn visit_trait_item_fn(&mut self, i: &'ast syn::TraitItemFn) {
        scoped!(self, &i.sig.generics, syn::visit::visit_trait_item_fn(self, i))
    }
    fn visit_type(&mut self, t: &'ast syn::Type) {
        // Only scan outermost types: nested ones are reached through `scan` itself.
        let ty = convert_type(t);
        self.scan(&ty);
    }
}

fn strip_refcell(t: &Ty) -> Ty {
    match t {
        Ty::Path { name, args } if name == "RefCell" && args.len() == 1 => args[0].clone(),
        other => other.clone(),
    }
}

struct KindTable {
    kinds: Vec<Kind>,
    by_data: BTreeMap<Ty, usize>,
}

impl KindTable {
    fn kind_of_boxed(&self, db: &TypeDb, inner: &Ty) -> R<Option<usize>> {
        let t = db.expand_deep(inner)?;
        let d = strip_refcell(&t);
        Ok(self.by_data.get(&d).copied())
    }
}

fn discover_kinds(srcs: &[Src], db: &TypeDb) -> R<KindTable> {
    let mut found: Vec<(String, String, Ty)> = Vec::new(); // file, wrapper, inner
    for s in srcs {
        let mut c = TypeCollector {
            scope: Vec::new(),
            found: Vec::new(),
        };
        c.visit_file(&s.ast);
        for (w, t) in c.found {
            found.push((s.name.clone(), w, t));
        }
    }
    // Value variants give names to generic instantiations.
    let value = match db.the_enum("Value", "naming boxed kinds")? {
        Some(v) => v,
        None => return unsup("value.rs", "enum Value", "not found"),
    };
    let mut variant_name_of: BTreeMap<Ty, String> = BTreeMap::new();
    for v in &value.variants {
        if v.fields.len() == 1 {
            let t = db.expand_deep(&v.fields[0].1)?;
            if let Ty::Path { name, args } = &t {
                if name == "Gc" && args.len() == 1 {
                    variant_name_of.insert(strip_refcell(&args[0]), v.name.clone());
                }
            }
        }
    }

    let mut by_data: BTreeMap<Ty, (BTreeSet<Ty>, BTreeSet<String>, String)> = BTreeMap::new();
    for (file, wrapper, inner) in found {
        let full = db.expand_deep(&inner)?;
        let data = strip_refcell(&full);
        let head = match data.head() {
            Some(h) => h.to_string(),
            None => {
                return unsup(&file, &format!("{}<{}>", wrapper, inner), "boxed type is not a path type");
            }
        };
        if db.the_struct(&head, "discovering boxed kinds")?.is_none() {
            return unsup(
                &file,
                &format!("{}<{}>", wrapper, inner),
                format!("boxed type '{}' is not a struct defined in the source dir", head),
            );
        }
        let e = by_data
            .entry(data)
            .or_insert_with(|| (BTreeSet::new(), BTreeSet::new(), file.clone()));
        e.0.insert(full);
        e.1.insert(wrapper);
    }

    let mut named: Vec<(String, Ty, BTreeSet<Ty>, BTreeSet<String>)> = Vec::new();
    for (data, (boxed_as, seen_in, file)) in by_data {
        let name = match &data {
            Ty::Path { name, args } if args.is_empty() => name.clone(),
            other => match variant_name_of.get(other) {
                Some(n) => n.clone(),
                None => {
                    return unsup(
                        &file,
                        &other.to_string(),
                        "generic instantiation is boxed but no `Value` variant wraps it, so it has no stable kind name",
                    )
                }
            },
        };
        named.push((name, data, boxed_as, seen_in));
    }
    named.sort_by(|a, b| a.0.cmp(&b.0));
    for w in named.windows(2) {
        if w[0].0 == w[1].0 {
            return unsup("value.rs", &w[0].0, "two boxed kinds resolve to the same name");
        }
    }
    let mut kinds = Vec::new();
    let mut map = BTreeMap::new();
    for (id, (name, data_ty, boxed_as, seen_in)) in named.into_iter().enumerate() {
        map.insert(data_ty.clone(), id);
        kinds.push(Kind {
            id,
            name,
            data_ty,
            boxed_as,
            seen_in,
        });
    }
    Ok(KindTable { kinds, by_data: map })
}

// ---------------------------------------------------------------------------------------------
// A2: field paths

struct FieldWalk<'a> {
    db: &'a TypeDb,
    kt: &'a KindTable,
    value_kinds: &'a [usize],
    out: Vec<Field>,
    kind_name: String,
}

impl<'a> FieldWalk<'a> {
    fn push(&mut self, name: String, shape: &[String], leaf: Leaf, ty: &Ty, targets: Vec<usize>) {
        let mut sh = shape.to_vec();
        sh.push(match &leaf {
            Leaf::Gc(w) => w.clone(),
            Leaf::Value => "Value".to_string(),
            Leaf::Raw => "raw".to_string(),
        });
        let id = self.out.len();
        self.out.push(Field {
            id,
            name,
            shape: sh.join("/"),
            leaf,
            ty: ty.to_string(),
            targets,
        });
    }

    fn walk(&mut self, ty: &Ty, path: &str, shape: &mut Vec<String>, depth: usize) -> R<()> {
        let item = format!("{} ({})", self.kind_name, path);
        if depth > 24 {
            return unsup("object.rs", &item, "type nesting too deep (recursive inline type?)");
        }
        let ty = self.db.expand(ty)?;
        match &ty {
            Ty::RawPtr { .. } => {
                self.push(format!("{}(raw)", path), shape, Leaf::Raw, &ty, vec![]);
                Ok(())
            }
            Ty::FnPtr => Ok(()),
            Ty::Ref(_) => unsup("object.rs", &item, format!("reference type {} stored in a boxed kind", ty)),
            Ty::Slice(t) | Ty::Array(t, _) => {
                shape.push("Array".into());
                let r = self.walk(t, &format!("{}[]", path), shape, depth + 1);
                shape.pop();
                r
            }
            Ty::Tuple(v) => {
                for (i, t) in v.iter().enumerate() {
                    self.walk(t, &format!("{}.{}", path, i), shape, depth + 1)?;
                }
                Ok(())
            }
            Ty::Other(s) => unsup("object.rs", &item, format!("unclassifiable type '{}'", s)),
            Ty::Path { name, args } => {
                let n = name.as_str();
                if WRAPPERS.contains(&n) && args.len() == 1 {
                    return match self.kt.kind_of_boxed(self.db, &args[0])? {
                        Some(k) => {
                            self.push(path.to_string(), shape, Leaf::Gc(n.to_string()), &ty, vec![k]);
                            Ok(())
                        }
                        None => unsup("object.rs", &item, format!("{} points to an unknown boxed kind", ty)),
                    };
                }
                if n == "Value" && args.is_empty() {
                    let targets = self.value_kinds.to_vec();
                    self.push(path.to_string(), shape, Leaf::Value, &ty, targets);
                    return Ok(());
                }
                if POINTER_FREE.contains(&n) && (args.is_empty() || n == "PhantomData") {
                    return Ok(());
                }
                match (n, args.len()) {
                    ("Option", 1) | ("RefCell", 1) | ("Cell", 1) | ("Box", 1) => {
                        shape.push(n.to_string());
                        let r = self.walk(&args[0], path, shape, depth + 1);
                        shape.pop();
                        return r;
                    }
                    ("Vec", 1) | ("VecDeque", 1) => {
                        shape.push(n.to_string());
                        let r = self.walk(&args[0], &format!("{}[]", path), shape, depth + 1);
                        shape.pop();
                        return r;
                    }
                    ("HashMap", 2) | ("HashMap", 3) | ("BTreeMap", 2) => {
                        shape.push(format!("{}.key", n));
                        self.walk(&args[0], &format!("{}{{key}}", path), shape, depth + 1)?;
                        shape.pop();
                        shape.push(format!("{}.value", n));
                        let r = self.walk(&args[1], &format!("{}{{value}}", path), shape, depth + 1);
                        shape.pop();
                        return r;
                    }
                    ("HashSet", 1) | ("HashSet", 2) => {
                        shape.push("HashSet.key".into());
                        let r = self.walk(&args[0], &format!("{}{{key}}", path), shape, depth + 1);
                        shape.pop();
                        return r;
                    }
                    _ => {}
                }
                if let Some(sd) = self.db.the_struct(n, "flattening fields")? {
                    if self.kt.by_data.contains_key(&ty) {
                        return unsup(
                            &sd.file,
                            &item,
                            format!("boxed kind {} stored inline (not behind Gc) in another boxed kind", ty),
                        );
                    }
                    if sd.params.len() != args.len() {
                        return unsup(&sd.file, &item, format!("generic arity mismatch for {}", ty));
                    }
                    let map: BTreeMap<String, Ty> = sd.params.iter().cloned().zip(args.iter().cloned()).collect();
                    shape.push(n.to_string());
                    for (fname, fty) in &sd.fields {
                        let t = fty.subst(&map);
                        self.walk(&t, &format!("{}.{}", path, fname), shape, depth + 1)?;
                    }
                    shape.pop();
                    return Ok(());
                }
                if let Some(ed) = self.db.the_enum(n, "flattening fields")? {
                    if ed.params.len() != args.len() {
                        return unsup(&ed.file, &item, format!("generic arity mismatch for {}", ty));
                    }
                    let map: BTreeMap<String, Ty> = ed.params.iter().cloned().zip(args.iter().cloned()).collect();
                    shape.push(n.to_string());
                    for v in &ed.variants {
                        for (fname, fty) in &v.fields {
                            let t = fty.subst(&map);
                            let p = variant_path(path, &v.name, fname, v.fields.len());
                            self.walk(&t, &p, shape, depth + 1)?;
                        }
                    }
                    shape.pop();
                    return Ok(());
                }
                unsup(
                    "object.rs",
                    &item,
                    format!("type '{}' is neither a known container, a pointer-free primitive, nor defined in the source dir", ty),
                )
            }
        }
    }
}

pub fn variant_path(path: &str, variant: &str, field: &str, nfields: usize) -> String {
    if nfields > 1 {
        format!("{}:{}.{}", path, variant, field)
    } else {
        format!("{}:{}", path, variant)
    }
}

// ---------------------------------------------------------------------------------------------
// A3: symbolic execution of mark()/blacken() bodies

#[derive(Debug, Clone)]
struct TV {
    ty: Ty,
    path: String,
    restrict: Option<String>,
}

#[derive(Debug, Clone)]
enum Binding {
    Place(TV),
    /// `for i in 0..<base>.len()`
    IndexVar { base_path: String },
}

type Env = BTreeMap<String, Binding>;

enum Iter {
    Elems(TV),
    Keys(TV),
    Values(TV),
    Pairs(TV, TV),
    IndexRange { base_path: String },
}

struct Interp<'a> {
    db: &'a TypeDb,
    kt: &'a KindTable,
    out: Vec<RawOp>,
    via: Vec<String>,
    /// (file, item) of the impl body being interpreted, for diagnostics
    loc: Vec<(String, String)>,
    managed_files_seen: BTreeSet<(String, String)>,
}

fn is_trivially_empty(e: &Expr) -> bool {
    match e {
        Expr::Block(b) => b.block.stmts.is_empty(),
        Expr::Tuple(t) => t.elems.is_empty(),
        _ => false,
    }
}

fn is_print_macro(m: &syn::Macro) -> bool {
    matches!(
        path_to_string(&m.path).as_str(),
        "println" | "print" | "eprintln" | "eprint"
    )
}

impl<'a> Interp<'a> {
    fn fail<T>(&self, why: impl Into<String>) -> R<T> {
        let (f, i) = self.loc.last().cloned().unwrap_or(("?".into(), "?".into()));
        unsup(&f, &i, why)
    }

    fn unify(pat: &Ty, ty: &Ty, params: &[String], map: &mut BTreeMap<String, Ty>) -> bool {
        match (pat, ty) {
            (Ty::Path { name, args }, _) if args.is_empty() && params.contains(name) => {
                match map.get(name) {
                    Some(prev) => prev == ty,
                    None => {
                        map.insert(name.clone(), ty.clone());
                        true
                    }
                }
            }
            (Ty::Other(s), _) if params.contains(s) => {
                map.insert(s.clone(), ty.clone());
                true
            }
            (Ty::Path { name: n1, args: a1 }, Ty::Path { name: n2, args: a2 }) => {
                n1 == n2 && a1.len() == a2.len() && a1.iter().zip(a2).all(|(p, t)| Self::unify(p, t, params, map))
            }
            (Ty::Slice(a), Ty::Slice(b)) => Self::unify(a, b, params, map),
            (Ty::Array(a, _), Ty::Array(b, _)) => Self::unify(a, b, params, map),
            (Ty::Tuple(a), Ty::Tuple(b)) => {
                a.len() == b.len() && a.iter().zip(b).all(|(p, t)| Self::unify(p, t, params, map))
            }
            (a, b) => a == b,
        }
    }

    fn norm(&self, t: &Ty) -> R<Ty> {
        self.db.expand(t.strip_refs())
    }

    /// `<tv>.mark()` / `<tv>.blacken()`
    fn call_trace(&mut self, tv: &TV, method: &str) -> R<()> {
        if self.via.len() > 40 {
            return self.fail("impl composition too deep (cycle between impls?)");
        }
        let ty = self.norm(&tv.ty)?;
        if let Ty::Path { name, args } = &ty {
            if name == "GcBox" && args.len() == 1 {
                let op = match method {
                    "mark" => Op::Mark,
                    "blacken" => Op::Blacken,
                    _ => return self.fail(format!("GcBox method '{}' is not mark/blacken", method)),
                };
                let has = self.db.impls.iter().any(|im| {
                    im.trait_name.is_none()
                        && im.self_ty.head() == Some("GcBox")
                        && im.fns.iter().any(|f| f.sig.ident == method)
                });
                if !has {
                    return self.fail(format!("GcBox has no inherent method '{}'", method));
                }
                let target = match self.kt.kind_of_boxed(self.db, &args[0])? {
                    Some(k) => k,
                    None => return self.fail(format!("GcBox<{}> is not a known boxed kind", args[0])),
                };
                let mut via = self.via.clone();
                via.push(format!("GcBox::{}", method));
                self.out.push(RawOp {
                    path: tv.path.clone(),
                    target,
                    op,
                    via,
                    restrict: tv.restrict.clone(),
                });
                return Ok(());
            }
        }
        // Find the GcManaged impl.
        let mut matches: Vec<(&ImplDef, BTreeMap<String, Ty>)> = Vec::new();
        for im in &self.db.impls {
            if im.trait_name.as_deref() != Some("GcManaged") {
                continue;
            }
            let pat = self.db.expand(im.self_ty.strip_refs())?;
            let mut map = BTreeMap::new();
            if Self::unify(&pat, &ty, &im.params, &mut map) {
                matches.push((im, map));
            }
        }
        if matches.is_empty() {
            return self.fail(format!(
                "`.{}()` called on a value of type {} (at {}) which has no GcManaged impl",
                method, ty, tv.path
            ));
        }
        if matches.len() > 1 {
            return self.fail(format!("more than one GcManaged impl matches {}", ty));
        }
        let (im, _map) = matches.pop().unwrap();
        if !GC_FILES.contains(&im.file.as_str()) {
            return unsup(
                &im.file,
                &format!("impl GcManaged for {}", im.self_ty),
                "GcManaged impl outside the expected files",
            );
        }
        let f = match im.fns.iter().find(|f| f.sig.ident == method) {
            Some(f) => f.clone(),
            None => {
                return unsup(
                    &im.file,
                    &format!("impl GcManaged for {}", im.self_ty),
                    format!("no fn {}", method),
                )
            }
        };
        let label = format!("<{} as GcManaged>::{}", im.self_ty, method);
        self.managed_files_seen
            .insert((im.file.clone(), format!("{}", im.self_ty)));
        self.loc.push((im.file.clone(), label.clone()));
        self.via.push(format!("{}::{}", im.self_ty, method));
        let mut env: Env = BTreeMap::new();
        env.insert(
            "self".into(),
            Binding::Place(TV {
                ty: ty.clone(),
                path: tv.path.clone(),
                restrict: tv.restrict.clone(),
            }),
        );
        let r = self.block(&mut env, &f.block);
        self.via.pop();
        self.loc.pop();
        r
    }

    fn block(&mut self, env: &mut Env, b: &syn::Block) -> R<()> {
        let mut scope = env.clone();
        for s in &b.stmts {
            self.stmt(&mut scope, s)?;
        }
        Ok(())
    }

    fn stmt(&mut self, env: &mut Env, s: &Stmt) -> R<()> {
        match s {
            Stmt::Expr(e, _) => self.effect(env, e),
            Stmt::Local(l) => {
                let init = match &l.init {
                    Some(i) if i.diverge.is_none() => &i.expr,
                    _ => return self.fail(format!("unsupported let statement `{}`", toks(l))),
                };
                // `let _n = <iter>.map(|e| e.mark()).count();` — an iterator chain run for effect.
                if let Expr::MethodCall(mc) = &**init {
                    if matches!(mc.method.to_string().as_str(), "count" | "last" | "for_each") {
                        return self.iter_chain(env, init);
                    }
                }
                let name = match &l.pat {
                    Pat::Ident(pi) if pi.subpat.is_none() => pi.ident.to_string(),
                    _ => return self.fail(format!("unsupported let pattern `{}`", toks(&l.pat))),
                };
                let tv = self.place(env, init)?;
                env.insert(name, Binding::Place(tv));
                Ok(())
            }
            Stmt::Macro(m) => {
                if is_print_macro(&m.mac) {
                    Ok(())
                } else {
                    self.fail(format!("macro statement `{}!` in trace body", path_to_string(&m.mac.path)))
                }
            }
            Stmt::Item(_) => self.fail("item declared inside a trace body"),
        }
    }

    fn only_prints(&self, b: &syn::Block) -> bool {
        b.stmts.iter().all(|s| match s {
            Stmt::Macro(m) => is_print_macro(&m.mac),
            Stmt::Expr(Expr::Macro(m), _) => is_print_macro(&m.mac),
            _ => false,
        })
    }

    /// Expression evaluated for its effect.
    fn effect(&mut self, env: &mut Env, e: &Expr) -> R<()> {
        match e {
            Expr::Paren(p) => self.effect(env, &p.expr),
            Expr::Group(p) => self.effect(env, &p.expr),
            Expr::Tuple(t) if t.elems.is_empty() => Ok(()),
            Expr::Block(b) => self.block(env, &b.block),
            Expr::Unsafe(b) => self.block(env, &b.block),
            Expr::Macro(m) if is_print_macro(&m.mac) => Ok(()),
            Expr::MethodCall(mc) => {
                let name = mc.method.to_string();
                if (name == "mark" || name == "blacken") && mc.args.is_empty() {
                    let tv = self.place(env, &mc.receiver)?;
                    return self.call_trace(&tv, &name);
                }
                self.iter_chain(env, e)
            }
            Expr::If(i) => {
                // if let Some(x) = <place> { … }
                if let Expr::Let(l) = &*i.cond {
                    match &i.else_branch {
                        None => {}
                        Some((_, eb)) if is_trivially_empty(eb) => {}
                        Some(_) => return self.fail("`if let … else` with a non-empty else branch in a trace body"),
                    }
                    let scrut = self.place(env, &l.expr)?;
                    let mut scope = env.clone();
                    if !self.bind_pattern(&mut scope, &l.pat, &scrut)? {
                        return self.fail(format!("unsupported `if let` pattern `{}`", toks(&*l.pat)));
                    }
                    return self.block(&mut scope, &i.then_branch);
                }
                if let Expr::Macro(m) = &*i.cond {
                    if path_to_string(&m.mac.path) == "cfg"
                        && self.only_prints(&i.then_branch)
                        && i.else_branch.is_none()
                    {
                        return Ok(());
                    }
                }
                self.fail(format!(
                    "conditional tracing: `if {}` is not an `if let` over a traced place",
                    toks(&*i.cond)
                ))
            }
            Expr::Match(m) => {
                let scrut = self.place(env, &m.expr)?;
                for arm in &m.arms {
                    if arm.guard.is_some() {
                        return self.fail("match arm with a guard in a trace body");
                    }
                    self.match_arm(env, &arm.pat, &arm.body, &scrut)?;
                }
                Ok(())
            }
            Expr::ForLoop(f) => {
                let it = self.iterable(env, &f.expr)?;
                let mut scope = env.clone();
                self.bind_iter(&mut scope, &f.pat, it)?;
                self.block(&mut scope, &f.body)
            }
            other => self.fail(format!("unsupported statement shape `{}`", truncate_chars(&toks(other), 120))),
        }
    }

    fn match_arm(&mut self, env: &mut Env, pat: &Pat, body: &Expr, scrut: &TV) -> R<()> {
        match pat {
            Pat::Or(o) => {
                for c in &o.cases {
                    self.match_arm(env, c, body, scrut)?;
                }
                Ok(())
            }
            Pat::Wild(_) => {
                if is_trivially_empty(body) {
                    Ok(())
                } else {
                    self.fail("wildcard match arm with a non-empty body in a trace body")
                }
            }
            _ => {
                let mut scope = env.clone();
                if !self.bind_pattern(&mut scope, pat, scrut)? {
                    return self.fail(format!("unsupported match pattern `{}`", toks(pat)));
                }
                self.effect(&mut scope, body)
            }
        }
    }

    /// Bind an enum-variant pattern against a place. Returns false when the pattern shape is not
    /// understood.
    fn bind_pattern(&mut self, env: &mut Env, pat: &Pat, scrut: &TV) -> R<bool> {
        let ty = self.norm(&scrut.ty)?;
        let (path_segs, subpats): (Vec<String>, Vec<(Option<String>, &Pat)>) = match pat {
            Pat::Reference(r) => return self.bind_pattern(env, &r.pat, scrut),
            Pat::Paren(p) => return self.bind_pattern(env, &p.pat, scrut),
            Pat::TupleStruct(ts) => (
                ts.path.segments.iter().map(|s| s.ident.to_string()).collect(),
                ts.elems.iter().map(|p| (None, p)).collect(),
            ),
            Pat::Path(p) => (p.path.segments.iter().map(|s| s.ident.to_string()).collect(), vec![]),
            Pat::Ident(pi) if pi.subpat.is_none() && pi.by_ref.is_none() => {
                // A bare identifier is a unit variant only if the enum has one of that name.
                (vec![pi.ident.to_string()], vec![])
            }
            Pat::Struct(ps) => (
                ps.path.segments.iter().map(|s| s.ident.to_string()).collect(),
                ps.fields
                    .iter()
                    .map(|f| {
                        let n = match &f.member {
                            syn::Member::Named(i) => i.to_string(),
                            syn::Member::Unnamed(i) => i.index.to_string(),
                        };
                        (Some(n), &*f.pat)
                    })
                    .collect(),
            ),
            _ => return Ok(false),
        };
        let variant = path_segs.last().unwrap().clone();
        // Variant table of the scrutinee type.
        let (enum_name, variants, keep_path): (String, Vec<VariantDef>, bool) = match &ty {
            Ty::Path { name, args } if name == "Option" && args.len() == 1 => (
                "Option".into(),
                vec![
                    VariantDef {
                        name: "Some".into(),
                        fields: vec![("0".into(), args[0].clone())],
                        discriminant: None,
                    },
                    VariantDef {
                        name: "None".into(),
                        fields: vec![],
                        discriminant: None,
                    },
                ],
                true,
            ),
            Ty::Path { name, args } => match self.db.the_enum(name, "matching in a trace body")? {
                Some(ed) => {
                    let map: BTreeMap<String, Ty> = ed.params.iter().cloned().zip(args.iter().cloned()).collect();
                    (
                        name.clone(),
                        ed.variants
                            .iter()
                            .map(|v| VariantDef {
                                name: v.name.clone(),
                                fields: v.fields.iter().map(|(n, t)| (n.clone(), t.subst(&map))).collect(),
                                discriminant: None,
                            })
                            .collect(),
                        name == "Value",
                    )
                }
                None => return self.fail(format!("match/if-let on {} which is not an enum defined in the source dir", ty)),
            },
            _ => return self.fail(format!("match/if-let on non-enum type {}", ty)),
        };
        if path_segs.len() >= 2 {
            let q = &path_segs[path_segs.len() - 2];
            if q != &enum_name && q != "Self" {
                return self.fail(format!(
                    "pattern `{}` names enum {} but the scrutinee has type {}",
                    toks(pat),
                    q,
                    ty
                ));
            }
        }
        let vd = match variants.iter().find(|v| v.name == variant) {
            Some(v) => v,
            None => return self.fail(format!("pattern `{}`: enum {} has no variant {}", toks(pat), enum_name, variant)),
        };
        for (idx, (named, sp)) in subpats.iter().enumerate() {
            let (fname, fty) = match named {
                Some(n) => match vd.fields.iter().find(|(fname, _)| fname == n) {
                    Some(x) => x.clone(),
                    None => return self.fail(format!("pattern `{}`: no field {}", toks(pat), n)),
                },
                None => match vd.fields.get(idx) {
                    Some(x) => x.clone(),
                    None => return self.fail(format!("pattern `{}`: too many sub-patterns", toks(pat))),
                },
            };
            let mut sp: &Pat = sp;
            while let Pat::Reference(r) = sp {
                sp = &r.pat;
            }
            match sp {
                Pat::Wild(_) => {}
                Pat::Ident(pi) if pi.subpat.is_none() => {
                    let p = if keep_path {
                        scrut.path.clone()
                    } else {
                        variant_path(&scrut.path, &vd.name, &fname, vd.fields.len())
                    };
                    env.insert(
                        pi.ident.to_string(),
                        Binding::Place(TV {
                            ty: fty,
                            path: p,
                            restrict: scrut.restrict.clone(),
                        }),
                    );
                }
                Pat::Rest(_) => {}
                _ => return Ok(false),
            }
        }
        Ok(true)
    }

    fn elem_of(&self, t: &Ty) -> R<Option<Ty>> {
        let t = self.norm(t)?;
        Ok(match &t {
            Ty::Slice(e) | Ty::Array(e, _) => Some((**e).clone()),
            Ty::Path { name, args } if (name == "Vec" || name == "VecDeque") && args.len() == 1 => {
                Some(args[0].clone())
            }
            Ty::Path { name, args } if name == "Box" && args.len() == 1 => self.elem_of(&args[0])?,
            _ => None,
        })
    }

    fn iterable(&mut self, env: &mut Env, e: &Expr) -> R<Iter> {
        match e {
            Expr::Paren(p) => return self.iterable(env, &p.expr),
            Expr::Range(r) => {
                // 0..<place>.len()
                let zero = matches!(r.start.as_deref(), Some(Expr::Lit(l)) if toks(l) == "0");
                let half_open = matches!(r.limits, syn::RangeLimits::HalfOpen(_));
                if let (true, true, Some(Expr::MethodCall(mc))) = (zero, half_open, r.end.as_deref()) {
                    if mc.method == "len" && mc.args.is_empty() {
                        let base = self.place(env, &mc.receiver)?;
                        if self.elem_of(&base.ty)?.is_some() {
                            return Ok(Iter::IndexRange { base_path: base.path });
                        }
                    }
                }
                return self.fail(format!(
                    "index loop over `{}` is not of the form `0..<container>.len()`",
                    toks(e)
                ));
            }
            Expr::MethodCall(mc) if mc.args.is_empty() => {
                let m = mc.method.to_string();
                if matches!(m.as_str(), "values" | "keys" | "iter" | "values_mut" | "iter_mut") {
                    let base = self.place(env, &mc.receiver)?;
                    let bt = self.norm(&base.ty)?;
                    if let Ty::Path { name, args } = &bt {
                        if (name == "HashMap" || name == "BTreeMap") && args.len() >= 2 {
                            let k = TV {
                                ty: args[0].clone(),
                                path: format!("{}{{key}}", base.path),
                                restrict: base.restrict.clone(),
                            };
                            let v = TV {
                                ty: args[1].clone(),
                                path: format!("{}{{value}}", base.path),
                                restrict: base.restrict.clone(),
                            };
                            return Ok(match m.as_str() {
                                "values" | "values_mut" => Iter::Values(v),
                                "keys" => Iter::Keys(k),
                                _ => Iter::Pairs(k, v),
                            });
                        }
                    }
                    if m == "iter" || m == "iter_mut" {
                        if let Some(et) = self.elem_of(&bt)? {
                            return Ok(Iter::Elems(TV {
                                ty: et,
                                path: format!("{}[]", base.path),
                                restrict: base.restrict,
                            }));
                        }
                    }
                    return self.fail(format!("`.{}()` on {} is not an understood iteration", m, bt));
                }
            }
            _ => {}
        }
        let base = self.place(env, e)?;
        let bt = self.norm(&base.ty)?;
        if let Some(et) = self.elem_of(&bt)? {
            return Ok(Iter::Elems(TV {
                ty: et,
                path: format!("{}[]", base.path),
                restrict: base.restrict,
            }));
        }
        if let Ty::Path { name, args } = &bt {
            if (name == "HashMap" || name == "BTreeMap") && args.len() >= 2 {
                return Ok(Iter::Pairs(
                    TV {
                        ty: args[0].clone(),
                        path: format!("{}{{key}}", base.path),
                        restrict: base.restrict.clone(),
                    },
                    TV {
                        ty: args[1].clone(),
                        path: format!("{}{{value}}", base.path),
                        restrict: base.restrict.clone(),
                    },
                ));
            }
            if name == "Option" && args.len() == 1 {
                return Ok(Iter::Elems(TV {
                    ty: args[0].clone(),
                    path: base.path,
                    restrict: base.restrict,
                }));
            }
        }
        self.fail(format!("cannot iterate over `{}` of type {}", toks(e), bt))
    }

    fn simple_ident(p: &Pat) -> Option<Option<String>> {
        // Some(Some(name)) = binds name, Some(None) = wildcard, None = unsupported
        let mut p = p;
        loop {
            match p {
                Pat::Reference(r) => p = &r.pat,
                Pat::Paren(x) => p = &x.pat,
                Pat::Type(t) => p = &t.pat,
                Pat::Ident(pi) if pi.subpat.is_none() => return Some(Some(pi.ident.to_string())),
                Pat::Wild(_) => return Some(None),
                _ => return None,
            }
        }
    }

    fn bind_iter(&mut self, env: &mut Env, pat: &Pat, it: Iter) -> R<()> {
        match it {
            Iter::Elems(tv) | Iter::Keys(tv) | Iter::Values(tv) => match Self::simple_ident(pat) {
                Some(Some(n)) => {
                    env.insert(n, Binding::Place(tv));
                    Ok(())
                }
                Some(None) => Ok(()),
                None => self.fail(format!("unsupported loop pattern `{}`", toks(pat))),
            },
            Iter::Pairs(k, v) => {
                let mut p = pat;
                while let Pat::Reference(r) = p {
                    p = &r.pat;
                }
                if let Pat::Tuple(t) = p {
                    if t.elems.len() == 2 {
                        let a = Self::simple_ident(&t.elems[0]);
                        let b = Self::simple_ident(&t.elems[1]);
                        if let (Some(a), Some(b)) = (a, b) {
                            if let Some(n) = a {
                                env.insert(n, Binding::Place(k));
                            }
                            if let Some(n) = b {
                                env.insert(n, Binding::Place(v));
                            }
                            return Ok(());
                        }
                    }
                }
                self.fail(format!("unsupported (key, value) loop pattern `{}`", toks(pat)))
            }
            Iter::IndexRange { base_path } => match Self::simple_ident(pat) {
                Some(Some(n)) => {
                    env.insert(n, Binding::IndexVar { base_path });
                    Ok(())
                }
                _ => self.fail(format!("unsupported index-loop pattern `{}`", toks(pat))),
            },
        }
    }

    /// `<iterable>.for_each(|p| body)` and `<iterable>.map(|p| body).count()` style chains.
    fn iter_chain(&mut self, env: &mut Env, e: &Expr) -> R<()> {
        let mc = match e {
            Expr::MethodCall(mc) => mc,
            _ => return self.fail("internal: iter_chain on non-call"),
        };
        let name = mc.method.to_string();
        let (base, closure): (&Expr, &Expr) = if name == "for_each" && mc.args.len() == 1 {
            (&mc.receiver, &mc.args[0])
        } else if (name == "count" || name == "last") && mc.args.is_empty() {
            match &*mc.receiver {
                Expr::MethodCall(inner) if inner.method == "map" && inner.args.len() == 1 => {
                    (&inner.receiver, &inner.args[0])
                }
                _ => {
                    return self.fail(format!(
                        "unsupported iterator chain `{}`",
                        truncate_chars(&toks(e), 120)
                    ))
                }
            }
        } else {
            return self.fail(format!(
                "unsupported call `{}` in a trace body",
                truncate_chars(&toks(e), 120)
            ));
        };
        let cl = match closure {
            Expr::Closure(c) if c.inputs.len() == 1 => c,
            _ => {
                return self.fail(format!(
                    "iterator chain argument `{}` is not a one-parameter closure",
                    truncate_chars(&toks(closure), 80)
                ))
            }
        };
        let it = self.iterable(env, base)?;
        let mut scope = env.clone();
        self.bind_iter(&mut scope, &cl.inputs[0], it)?;
        self.effect(&mut scope, &cl.body)
    }

    /// Evaluate an expression to a typed place.
    fn place(&mut self, env: &mut Env, e: &Expr) -> R<TV> {
        match e {
            Expr::Paren(p) => self.place(env, &p.expr),
            Expr::Group(p) => self.place(env, &p.expr),
            Expr::Reference(r) => self.place(env, &r.expr),
            Expr::Unary(u) if matches!(u.op, syn::UnOp::Deref(_)) => {
                let tv = self.place(env, &u.expr)?;
                if matches!(self.norm(&tv.ty)?, Ty::RawPtr { .. }) {
                    return self.fail(format!("raw pointer dereference `{}` in a trace body", toks(e)));
                }
                Ok(tv)
            }
            Expr::Path(p) => {
                let name = path_to_string(&p.path);
                match env.get(&name) {
                    Some(Binding::Place(tv)) => Ok(tv.clone()),
                    Some(Binding::IndexVar { .. }) => self.fail(format!("index variable `{}` used as a value", name)),
                    None => self.fail(format!("`{}` is not `self`, a field path or a bound local", name)),
                }
            }
            Expr::Field(f) => {
                let base = self.place(env, &f.base)?;
                let bt = self.norm(&base.ty)?;
                let member = match &f.member {
                    syn::Member::Named(i) => i.to_string(),
                    syn::Member::Unnamed(i) => i.index.to_string(),
                };
                match &bt {
                    Ty::Tuple(v) => {
                        let idx: usize = member.parse().map_err(|_| Unsupported {
                            file: "?".into(),
                            item: "?".into(),
                            why: "tuple field".into(),
                        })?;
                        match v.get(idx) {
                            Some(t) => Ok(TV {
                                ty: t.clone(),
                                path: format!("{}.{}", base.path, member),
                                restrict: base.restrict,
                            }),
                            None => self.fail("tuple index out of range"),
                        }
                    }
                    Ty::Path { name, args } => {
                        let sd = match self.db.the_struct(name, "resolving a field in a trace body")? {
                            Some(s) => s,
                            None => {
                                return self.fail(format!(
                                    "field access `{}` on {} which is not a struct defined in the source dir (auto-deref is not modelled)",
                                    toks(e),
                                    bt
                                ))
                            }
                        };
                        let map: BTreeMap<String, Ty> =
                            sd.params.iter().cloned().zip(args.iter().cloned()).collect();
                        match sd.fields.iter().find(|(n, _)| n == &member) {
                            Some((_, t)) => Ok(TV {
                                ty: t.subst(&map),
                                path: format!("{}.{}", base.path, member),
                                restrict: base.restrict,
                            }),
                            None => self.fail(format!("struct {} has no field {}", name, member)),
                        }
                    }
                    other => self.fail(format!("field access on type {}", other)),
                }
            }
            Expr::Index(ix) => {
                let base = self.place(env, &ix.expr)?;
                let et = match self.elem_of(&base.ty)? {
                    Some(t) => t,
                    None => return self.fail(format!("index expression `{}` on non-sequence type {}", toks(e), base.ty)),
                };
                match &*ix.index {
                    Expr::Range(r) => Ok(TV {
                        ty: Ty::Slice(Box::new(et)),
                        path: base.path,
                        restrict: Some(toks(r)),
                    }),
                    Expr::Path(p) => {
                        let n = path_to_string(&p.path);
                        match env.get(&n) {
                            Some(Binding::IndexVar { base_path }) if *base_path == base.path => Ok(TV {
                                ty: et,
                                path: format!("{}[]", base.path),
                                restrict: base.restrict,
                            }),
                            _ => self.fail(format!(
                                "index `{}` is not a loop variable ranging over the whole of the same container",
                                n
                            )),
                        }
                    }
                    other => self.fail(format!("index expression `{}` is not a full-range loop variable", toks(other))),
                }
            }
            Expr::MethodCall(mc) => {
                let base = self.place(env, &mc.receiver)?;
                let bt = self.norm(&base.ty)?;
                let m = mc.method.to_string();
                if !mc.args.is_empty() {
                    return self.fail(format!("method call with arguments `{}` used as a traced place", toks(e)));
                }
                if let Ty::Path { name, args } = &bt {
                    let n = name.as_str();
                    let identity = match n {
                        "Option" => matches!(m.as_str(), "as_ref" | "as_mut" | "as_deref" | "iter" | "copied" | "cloned"),
                        "Vec" | "VecDeque" => matches!(m.as_str(), "iter" | "as_slice" | "iter_mut"),
                        _ => false,
                    };
                    if identity {
                        return Ok(TV {
                            ty: bt.clone(),
                            path: base.path,
                            restrict: base.restrict,
                        });
                    }
                    if (n == "RefCell" && matches!(m.as_str(), "borrow" | "borrow_mut"))
                        || (n == "Cell" && m == "get")
                    {
                        return Ok(TV {
                            ty: args[0].clone(),
                            path: base.path,
                            restrict: base.restrict,
                        });
                    }
                    // Inherent method returning the GcBox of a pointer wrapper.
                    let mut ret: Option<Ty> = None;
                    for im in &self.db.impls {
                        if im.trait_name.is_some() || im.self_ty.head() != Some(n) {
                            continue;
                        }
                        let pat = self.db.expand(im.self_ty.strip_refs())?;
                        let mut map = BTreeMap::new();
                        if !Self::unify(&pat, &bt, &im.params, &mut map) {
                            continue;
                        }
                        if let Some(f) = im.fns.iter().find(|f| f.sig.ident == m) {
                            if let syn::ReturnType::Type(_, t) = &f.sig.output {
                                let rt = convert_type(t).subst(&map);
                                ret = Some(rt);
                            }
                        }
                    }
                    if let Some(rt) = ret {
                        let rt = self.norm(&rt)?;
                        if rt.head() == Some("GcBox") {
                            return Ok(TV {
                                ty: rt,
                                path: base.path,
                                restrict: base.restrict,
                            });
                        }
                        return self.fail(format!(
                            "inherent method `{}::{}` returns {} — only accessors returning the GcBox are modelled",
                            n, m, rt
                        ));
                    }
                }
                if matches!(bt, Ty::Slice(_) | Ty::Array(..)) && m == "iter" {
                    return Ok(TV {
                        ty: bt,
                        path: base.path,
                        restrict: base.restrict,
                    });
                }
                self.fail(format!("method `.{}()` on {} is not an understood accessor", m, bt))
            }
            other => self.fail(format!(
                "expression `{}` is not an understood place",
                truncate_chars(&toks(other), 100)
            )),
        }
    }
}

// ---------------------------------------------------------------------------------------------
// A4: GcBox facts

fn gcbox_facts(db: &TypeDb) -> R<Vec<GcBoxMethod>> {
    let mut out = Vec::new();
    for method in ["mark", "blacken"] {
        let mut found: Option<(&ImplDef, &syn::ImplItemFn)> = None;
        for im in &db.impls {
            if im.trait_name.is_none() && im.self_ty.head() == Some("GcBox") {
                if let Some(f) = im.fns.iter().find(|f| f.sig.ident == method) {
                    if found.is_some() {
                        return unsup(&im.file, &format!("GcBox::{}", method), "defined more than once");
                    }
                    found = Some((im, f));
                }
            }
        }
        let (im, f) = match found {
            Some(x) => x,
            None => return unsup("memory.rs", &format!("GcBox::{}", method), "not found"),
        };
        let item = format!("GcBox::{}", method);
        let mut colour: Option<(String, String)> = None;
        let mut data_call: Option<String> = None;
        for s in &f.block.stmts {
            match s {
                Stmt::Expr(Expr::If(i), _) => {
                    if let Expr::Macro(m) = &*i.cond {
                        if path_to_string(&m.mac.path) == "cfg" {
                            continue;
                        }
                    }
                    // self.colour.replace(Colour::X) == Colour::Y { return; }
                    let ok = (|| {
                        let b = match &*i.cond {
                            Expr::Binary(b) if matches!(b.op, syn::BinOp::Eq(_)) => b,
                            _ => return None,
                        };
                        let mc = match &*b.left {
                            Expr::MethodCall(mc) if mc.method == "replace" && mc.args.len() == 1 => mc,
                            _ => return None,
                        };
                        if toks(&*mc.receiver) != "self.colour" {
                            return None;
                        }
                        let written = match &mc.args[0] {
                            Expr::Path(p) => p.path.segments.last()?.ident.to_string(),
                            _ => return None,
                        };
                        let compared = match &*b.right {
                            Expr::Path(p) => p.path.segments.last()?.ident.to_string(),
                            _ => return None,
                        };
                        let ret_only = i.then_branch.stmts.len() == 1
                            && matches!(&i.then_branch.stmts[0], Stmt::Expr(Expr::Return(r), _) if r.expr.is_none());
                        if !ret_only || i.else_branch.is_some() {
                            return None;
                        }
                        Some((written, compared))
                    })();
                    match ok {
                        Some(c) if colour.is_none() && data_call.is_none() => colour = Some(c),
                        _ => return unsup(&im.file, &item, format!("unrecognised `if` in GcBox method: `{}`", truncate_chars(&toks(i), 100))),
                    }
                }
                Stmt::Expr(Expr::MethodCall(mc), _) => {
                    if toks(&*mc.receiver) == "self.data" && mc.args.is_empty() && data_call.is_none() {
                        data_call = Some(mc.method.to_string());
                    } else {
                        return unsup(&im.file, &item, format!("unrecognised call `{}`", toks(mc)));
                    }
                }
                other => {
                    return unsup(&im.file, &item, format!("unrecognised statement `{}`", truncate_chars(&toks(other), 100)))
                }
            }
        }
        match (colour, data_call) {
            (Some((w, c)), Some(d)) => out.push(GcBoxMethod {
                method: method.to_string(),
                colour_written: w,
                colour_compared: c,
                data_call: d,
            }),
            _ => return unsup(&im.file, &item, "expected `if self.colour.replace(C) == C { return; } … self.data.<m>();`"),
        }
    }
    Ok(out)
}

// ---------------------------------------------------------------------------------------------

pub fn extract(srcs: &[Src], db: &TypeDb) -> R<GcSchema> {
    // Any GcManaged impl outside the expected files?
    let mut managed_impls = Vec::new();
    for im in &db.impls {
        if im.trait_name.as_deref() == Some("GcManaged") {
            managed_impls.push((im.file.clone(), im.self_ty.to_string()));
            if !GC_FILES.contains(&im.file.as_str()) {
                return unsup(
                    &im.file,
                    &format!("impl GcManaged for {}", im.self_ty),
                    "GcManaged impl outside memory/object/value/chunk/stack/vm.rs",
                );
            }
        }
    }
    managed_impls.sort();

    let kt = discover_kinds(srcs, db)?;

    // Value variants
    let value = db.the_enum("Value", "reading Value variants")?.unwrap();
    let mut value_variants = Vec::new();
    let mut value_kinds: Vec<usize> = Vec::new();
    for v in &value.variants {
        match v.fields.len() {
            0 => value_variants.push((v.name.clone(), None)),
            1 => {
                let t = db.expand_deep(&v.fields[0].1)?;
                match &t {
                    Ty::Path { name, args } if name == "Gc" && args.len() == 1 => {
                        match kt.kind_of_boxed(db, &args[0])? {
                            Some(k) => {
                                value_variants.push((v.name.clone(), Some(k)));
                                if !value_kinds.contains(&k) {
                                    value_kinds.push(k);
                                }
                            }
                            None => {
                                return unsup(&value.file, &format!("Value::{}", v.name), "wraps an unknown boxed kind")
                            }
                        }
                    }
                    Ty::Path { name, args } if args.is_empty() && POINTER_FREE.contains(&name.as_str()) => {
                        value_variants.push((v.name.clone(), None))
                    }
                    other => {
                        return unsup(
                            &value.file,
                            &format!("Value::{}", v.name),
                            format!("payload {} is neither Gc<…> nor a primitive", other),
                        )
                    }
                }
            }
            _ => return unsup(&value.file, &format!("Value::{}", v.name), "variant with more than one field"),
        }
    }
    value_kinds.sort();

    // Fields
    let mut fields = Vec::new();
    let mut all_fields = Vec::new();
    for k in &kt.kinds {
        let (name, args) = match &k.data_ty {
            Ty::Path { name, args } => (name.clone(), args.clone()),
            _ => unreachable!(),
        };
        let sd = db.the_struct(&name, "listing fields")?.unwrap();
        let map: BTreeMap<String, Ty> = sd.params.iter().cloned().zip(args.iter().cloned()).collect();
        let mut w = FieldWalk {
            db,
            kt: &kt,
            value_kinds: &value_kinds,
            out: Vec::new(),
            kind_name: k.name.clone(),
        };
        let mut af = Vec::new();
        for (fname, fty) in &sd.fields {
            let t = fty.subst(&map);
            af.push((fname.clone(), t.to_string()));
            let mut shape = Vec::new();
            w.walk(&t, &format!("{}.{}", k.name, fname), &mut shape, 0)?;
        }
        fields.push(w.out);
        all_fields.push(af);
    }

    // Ops
    let mut mark_ops = Vec::new();
    let mut blacken_ops = Vec::new();
    for k in &kt.kinds {
        for (method, dest) in [("mark", &mut mark_ops), ("blacken", &mut blacken_ops)] {
            let mut per_wrapper: Vec<Vec<RawOp>> = Vec::new();
            for full in &k.boxed_as {
                let mut it = Interp {
                    db,
                    kt: &kt,
                    out: Vec::new(),
                    via: Vec::new(),
                    loc: vec![("object.rs".into(), format!("{}::{}", k.name, method))],
                    managed_files_seen: BTreeSet::new(),
                };
                it.call_trace(
                    &TV {
                        ty: full.clone(),
                        path: k.name.clone(),
                        restrict: None,
                    },
                    method,
                )?;
                per_wrapper.push(it.out);
            }
            let first = per_wrapper[0].clone();
            for other in &per_wrapper[1..] {
                let a: Vec<_> = first.iter().map(|o| (&o.path, o.target, o.op)).collect();
                let b: Vec<_> = other.iter().map(|o| (&o.path, o.target, o.op)).collect();
                if a != b {
                    return unsup(
                        "object.rs",
                        &format!("{}::{}", k.name, method),
                        "kind is boxed under several wrapper types whose traces differ",
                    );
                }
            }
            let mut ops = Vec::new();
            for o in first {
                let f = match fields[k.id].iter().find(|f| f.name == o.path) {
                    Some(f) => f,
                    None => {
                        return unsup(
                            "object.rs",
                            &format!("{}::{}", k.name, method),
                            format!("trace reaches path '{}' which is not in the field table", o.path),
                        )
                    }
                };
                if !f.targets.contains(&o.target) {
                    return unsup(
                        "object.rs",
                        &format!("{}::{}", k.name, method),
                        format!("trace reaches kind {} through '{}' which cannot hold it", o.target, o.path),
                    );
                }
                ops.push(TraceOp {
                    field: f.id,
                    target: o.target,
                    op: o.op,
                    via: o.via,
                    restrict: o.restrict,
                });
            }
            dest.push(ops);
        }
    }

    // Leaf ops: probe each wrapper with the first kind.
    let mut leaf_ops = Vec::new();
    let probe_inner = kt.kinds[0].boxed_as.iter().next().unwrap().clone();
    for w in WRAPPERS {
        for method in ["mark", "blacken"] {
            let mut it = Interp {
                db,
                kt: &kt,
                out: Vec::new(),
                via: Vec::new(),
                loc: vec![("memory.rs".into(), format!("{}::{}", w, method))],
                managed_files_seen: BTreeSet::new(),
            };
            it.call_trace(
                &TV {
                    ty: Ty::path(w, vec![probe_inner.clone()]),
                    path: "<probe>".into(),
                    restrict: None,
                },
                method,
            )?;
            if it.out.len() != 1 {
                return unsup(
                    "memory.rs",
                    &format!("<{} as GcManaged>::{}", w, method),
                    format!("expected exactly one GcBox call, found {}", it.out.len()),
                );
            }
            leaf_ops.push((w.to_string(), method.to_string(), it.out[0].op.name().to_string()));
        }
    }

    let gcbox = gcbox_facts(db)?;

    Ok(GcSchema {
        kinds: kt.kinds,
        all_fields,
        fields,
        mark_ops,
        blacken_ops,
        value_kinds,
        value_variants,
        leaf_ops,
        gcbox,
        managed_impls,
    })
}

// ---------------------------------------------------------------------------------------------
// Output

impl GcSchema {
    pub fn to_json(&self) -> J {
        let ops_json = |ops: &Vec<TraceOp>, k: usize| -> J {
            J::Arr(
                ops.iter()
                    .map(|o| {
                        let mut v = vec![
                            ("field", jn(o.field)),
                            ("field_name", js(self.fields[k][o.field].name.clone())),
                            ("target", jn(o.target)),
                            ("target_name", js(self.kinds[o.target].name.clone())),
                            ("op", js(o.op.name())),
                            ("via", J::Arr(o.via.iter().map(|s| js(s.clone())).collect())),
                        ];
                        if let Some(r) = &o.restrict {
                            v.push(("restrict", js(r.clone())));
                        }
                        jobj(v)
                    })
                    .collect(),
            )
        };
        let kinds = self
            .kinds
            .iter()
            .map(|k| {
                // Untraced: (field, target) pairs never reached by blacken.
                let untraced = |ops: &Vec<TraceOp>| -> J {
                    let mut v = Vec::new();
                    for f in &self.fields[k.id] {
                        if f.leaf == Leaf::Raw {
                            v.push(jobj(vec![("field", js(f.name.clone())), ("missing", js("raw"))]));
                            continue;
                        }
                        let missing: Vec<usize> = f
                            .targets
                            .iter()
                            .copied()
                            .filter(|t| !ops.iter().any(|o| o.field == f.id && o.target == *t))
                            .collect();
                        if !missing.is_empty() {
                            let all = missing.len() == f.targets.len();
                            v.push(jobj(vec![
                                ("field", js(f.name.clone())),
                                ("missing", if all { js("all") } else { js("some") }),
                                (
                                    "missing_kinds",
                                    J::Arr(missing.iter().map(|m| js(self.kinds[*m].name.clone())).collect()),
                                ),
                            ]));
                        }
                    }
                    J::Arr(v)
                };
                jobj(vec![
                    ("id", jn(k.id)),
                    ("name", js(k.name.clone())),
                    ("data_type", js(k.data_ty.to_string())),
                    ("boxed_as", J::Arr(k.boxed_as.iter().map(|t| js(t.to_string())).collect())),
                    ("seen_in", J::Arr(k.seen_in.iter().map(|t| js(t.clone())).collect())),
                    (
                        "struct_fields",
                        J::Arr(
                            self.all_fields[k.id]
                                .iter()
                                .map(|(n, t)| jobj(vec![("name", js(n.clone())), ("type", js(t.clone()))]))
                                .collect(),
                        ),
                    ),
                    (
                        "pointer_fields",
                        J::Arr(
                            self.fields[k.id]
                                .iter()
                                .map(|f| {
                                    jobj(vec![
                                        ("id", jn(f.id)),
                                        ("name", js(f.name.clone())),
                                        ("shape", js(f.shape.clone())),
                                        (
                                            "leaf",
                                            js(match &f.leaf {
                                                Leaf::Gc(_) => "gc",
                                                Leaf::Value => "value",
                                                Leaf::Raw => "raw",
                                            }),
                                        ),
                                        ("type", js(f.ty.clone())),
                                        ("targets", J::Arr(f.targets.iter().map(|t| jn(*t)).collect())),
                                    ])
                                })
                                .collect(),
                        ),
                    ),
                    ("mark_ops", ops_json(&self.mark_ops[k.id], k.id)),
                    ("blacken_ops", ops_json(&self.blacken_ops[k.id], k.id)),
                    ("untraced_by_mark", untraced(&self.mark_ops[k.id])),
                    ("untraced_by_blacken", untraced(&self.blacken_ops[k.id])),
                ])
            })
            .collect();
        jobj(vec![
            ("kind_names", J::Arr(self.kinds.iter().map(|k| js(k.name.clone())).collect())),
            ("kinds", J::Arr(kinds)),
            ("value_kinds", J::Arr(self.value_kinds.iter().map(|k| jn(*k)).collect())),
            (
                "value_variants",
                J::Arr(
                    self.value_variants
                        .iter()
                        .map(|(n, k)| {
                            jobj(vec![
                                ("variant", js(n.clone())),
                                ("kind", k.map(jn).unwrap_or(J::Null)),
                            ])
                        })
                        .collect(),
                ),
            ),
            (
                "leaf_ops",
                J::Arr(
                    self.leaf_ops
                        .iter()
                        .map(|(w, m, o)| {
                            jobj(vec![("wrapper", js(w.clone())), ("method", js(m.clone())), ("gcbox_method", js(o.clone()))])
                        })
                        .collect(),
                ),
            ),
            (
                "gcbox",
                J::Arr(
                    self.gcbox
                        .iter()
                        .map(|g| {
                            jobj(vec![
                                ("method", js(g.method.clone())),
                                ("colour_written", js(g.colour_written.clone())),
                                ("colour_compared", js(g.colour_compared.clone())),
                                (
                                    "test",
                                    js(format!("replace({})=={}", g.colour_written, g.colour_compared)),
                                ),
                                ("then", js("return")),
                                ("data_call", js(g.data_call.clone())),
                            ])
                        })
                        .collect(),
                ),
            ),
            (
                "gcmanaged_impls",
                J::Arr(
                    self.managed_impls
                        .iter()
                        .map(|(f, t)| jobj(vec![("file", js(f.clone())), ("type", js(t.clone()))]))
                        .collect(),
                ),
            ),
        ])
    }

    pub fn to_lean(&self) -> LeanFile {
        let mut l = LeanFile::new("GcSchema.lean");
        l.comment("Table A: GC schema. Kind id = index in kindNames (alphabetical).");
        l.comment("Field ids are local to their kind, in struct declaration order (flattened).");
        l.def_list(
            "kindNames",
            "List String",
            &self.kinds.iter().map(|k| lean_str(&k.name)).collect::<Vec<_>>(),
        );
        let ft: Vec<String> = self
            .kinds
            .iter()
            .map(|k| {
                let fs: Vec<String> = self.fields[k.id]
                    .iter()
                    .map(|f| format!("({}, {}, {})", f.id, lean_str(&f.name), lean_nat_list(&f.targets)))
                    .collect();
                format!("({}, [{}])", k.id, fs.join(",\n      "))
            })
            .collect();
        l.def_list("fieldTable", "List (Nat × List (Nat × String × List Nat))", &ft);
        let ops = |ops: &Vec<Vec<TraceOp>>| -> Vec<String> {
            self.kinds
                .iter()
                .map(|k| {
                    let v: Vec<String> = ops[k.id]
                        .iter()
                        .map(|o| format!("({}, {}, {})", o.field, o.target, lean_bool(o.op == Op::Blacken)))
                        .collect();
                    format!("({}, [{}])", k.id, v.join(", "))
                })
                .collect()
        };
        l.def_list("markOps", "List (Nat × List (Nat × Nat × Bool))", &ops(&self.mark_ops));
        l.def_list("blackenOps", "List (Nat × List (Nat × Nat × Bool))", &ops(&self.blacken_ops));
        l.def_scalar("valueKinds", "List Nat", &lean_nat_list(&self.value_kinds));
        l.def_list(
            "leafOps",
            "List (String × String × String)",
            &self
                .leaf_ops
                .iter()
                .map(|(w, m, o)| format!("({}, {}, {})", lean_str(w), lean_str(m), lean_str(o)))
                .collect::<Vec<_>>(),
        );
        l.comment("");
        l.comment("GcBox methods: (method, colour written by replace, colour compared with, method called on data).");
        l.def_list(
            "gcBoxOps",
            "List (String × String × String × String)",
            &self
                .gcbox
                .iter()
                .map(|g| {
                    format!(
                        "({}, {}, {}, {})",
                        lean_str(&g.method),
                        lean_str(&g.colour_written),
                        lean_str(&g.colour_compared),
                        lean_str(&g.data_call)
                    )
                })
                .collect::<Vec<_>>(),
        );
        l
    }
}
