// ---- statements ------------------------------------------------------------------------------------

struct Scan {
    /// a `break` of the loop being scanned (not of a loop nested in it)
    has_break: bool,
    /// a `continue` of the loop being scanned (not of a loop nested in it)
    has_continue: bool,
    has_exit: bool,
    assigned: Vec<Expr>,
    /// receivers of `<place>.push(x)`: rewrites of the list when the translator models its elements
    pushed: Vec<Expr>,
    /// `<place>.m(args)`: if `m` is a translated method of the struct at that place, the places it writes are written here too
    place_calls: Vec<(Expr, String)>,
    calls: bool,
}

impl<'ast> syn::visit::Visit<'ast> for Scan {
    fn visit_expr(&mut self, e: &'ast Expr) {
        match e {
            Expr::Return(_) | Expr::Try(_) => self.has_exit = true,
            Expr::Break(_) => self.has_break = true,
            Expr::Continue(_) => self.has_continue = true,
            Expr::ForLoop(_) | Expr::Loop(_) | Expr::While(_) => {
                // a `break` / `continue` in there belongs to that loop, not this one
                let saved = (self.has_break, self.has_continue);
                syn::visit::visit_expr(self, e);
                self.has_break = saved.0;
                self.has_continue = saved.1;
                return;
            }
            Expr::Assign(a) => self.assigned.push((*a.left).clone()),
            Expr::Binary(b) => match b.op {
                BinOp::AddAssign(_) | BinOp::SubAssign(_) | BinOp::MulAssign(_) | BinOp::BitXorAssign(_) | BinOp::BitAndAssign(_)
                | BinOp::BitOrAssign(_) | BinOp::ShlAssign(_) | BinOp::ShrAssign(_) | BinOp::DivAssign(_) | BinOp::RemAssign(_) => {
                    self.assigned.push((*b.left).clone())
                }
                _ => {}
            },
            Expr::Closure(_) => return,
            // `self.<list>.push(x)` rewrites the list
            Expr::MethodCall(m)
                if ((m.method == "push" && m.args.len() == 1) || (m.method == "pop" && m.args.is_empty()))
                    && (matches!(&*m.receiver, Expr::Field(_)) || matches!(&*m.receiver, Expr::Path(p) if p.path.segments.len() == 1 && p.path.segments[0].ident != "self")) =>
            {
                if matches!(&*m.receiver, Expr::Path(_)) {
                    self.assigned.push((*m.receiver).clone());
                } else {
                    self.pushed.push((*m.receiver).clone());
                }
                self.calls = true
            }
            Expr::MethodCall(m) => {
                self.place_calls.push(((*m.receiver).clone(), m.method.to_string()));
                self.calls = true
            }
            Expr::Call(_) => self.calls = true,
            _ => {}
        }
        syn::visit::visit_expr(self, e);
    }
    fn visit_local(&mut self, l: &'ast syn::Local) {
        // `let x = &mut LIST[i];`: the element may be written through `x`
        if let Some(init) = &l.init {
            if let Expr::Reference(r) = &*init.expr {
                if r.mutability.is_some() {
                    if let Expr::Index(_) = &*r.expr {
                        self.assigned.push((*r.expr).clone());
                    }
                }
            }
        }
        syn::visit::visit_local(self, l);
    }
}

/// `LIST[i].field` / `LIST.last_mut().unwrap().field` as an assignment target: (the list expression, the index if any, the field).
fn rec_elem_target(t: &Expr) -> Option<(&Expr, Option<&Expr>, String)> {
    if let Expr::Field(f) = t {
        if let syn::Member::Named(fname) = &f.member {
            match &*f.base {
                Expr::Index(ix) => return Some((&*ix.expr, Some(&*ix.index), fname.to_string())),
                Expr::MethodCall(u) if u.method == "unwrap" && u.args.is_empty() => {
                    if let Expr::MethodCall(l) = &*u.receiver {
                        if (l.method == "last_mut" || l.method == "last") && l.args.is_empty() {
                            return Some((&*l.receiver, None, fname.to_string()));
                        }
                    }
                }
                _ => {}
            }
        }
    }
    None
}

fn scan_block(b: &syn::Block) -> Scan {
    let mut s = Scan { has_break: false, has_continue: false, has_exit: false, assigned: vec![], pushed: vec![], place_calls: vec![], calls: false };
    syn::visit::Visit::visit_block(&mut s, b);
    s
}

fn scan_expr(e: &Expr) -> Scan {
    let mut s = Scan { has_break: false, has_continue: false, has_exit: false, assigned: vec![], pushed: vec![], place_calls: vec![], calls: false };
    syn::visit::Visit::visit_expr(&mut s, e);
    s
}

impl<'a> Cx<'a> {
    /// `Rs.M.ok (<value>, <written places…>, effs_)`: what the generated function answers when the Rust function returns.
    fn exit_text(&mut self, value: &str) -> String {
        let mut parts = vec![value.to_string()];
        for w in self.written.clone() {
            match self.place(&w) {
                Ok(v) => parts.push(v.lean),
                Err(_) => parts.push("default".into()),
            }
        }
        if self.has_effects {
            parts.push("effs_".into());
        }
        if self.vm_mode {
            parts.push("vm_".into());
        }
        let tuple = if parts.len() == 1 { parts[0].clone() } else { format!("({})", parts.join(", ")) };
        if self.loop_depth > 0 {
            // inside a `loop` body: leaving the function = leaving the loop with the function's answer
            format!("(Rs.M.ok (Sum.inr {}))", tuple)
        } else {
            format!("(Rs.M.ok {})", tuple)
        }
    }

    fn join_names(&mut self, vars: &[(String, bool)]) -> R<Vec<String>> {
        let mut out = Vec::new();
        for (n, is_place) in vars {
            if *is_place {
                out.push(self.place(n)?.lean);
            } else if n == "effs_" || n == "vm_" {
                out.push(n.clone());
            } else {
                match self.lookup(n) {
                    Some(v) => out.push(v.lean),
                    None => return self.un(format!("joined variable `{}` is not in scope", n)),
                }
            }
        }
        Ok(out)
    }

    fn tuple_text(names: &[String]) -> String {
        match names.len() {
            0 => "()".into(),
            1 => names[0].clone(),
            _ => format!("({})", names.join(", ")),
        }
    }

    fn finish(&mut self, k: &Kont, value: Option<(String, LT)>) -> R<String> {
        match k {
            Kont::Return => {
                let (term, ty) = match value {
                    Some(v) => v,
                    None => ("()".to_string(), LT::Unit),
                };
                let ret = self.ret_ty.clone();
                if ty != ret && !(matches!(ty, LT::Opt(_)) && matches!(ret, LT::Opt(_))) && ret != LT::Opaque {
                    return self.un(format!("returned value has modelled type {:?} but the function returns {:?}", ty, ret));
                }
                let term = if ret == LT::Opaque { "()".to_string() } else { term };
                Ok(self.exit_text(&term))
            }
            Kont::Join(vars) => {
                let names = self.join_names(vars)?;
                Ok(format!("(Rs.M.ok {})", Self::tuple_text(&names)))
            }
            Kont::LoopCont(vars) => {
                let names = self.join_names(vars)?;
                Ok(format!("(Rs.M.ok (Sum.inl {}))", Self::tuple_text(&names)))
            }
        }
    }

    /// Which variables / places of the enclosing scope a piece of code assigns.
    fn assigned_outer(&mut self, scan: &Scan, effects: bool) -> R<Vec<(String, bool)>> {
        let mut out: Vec<(String, bool)> = Vec::new();
        for (recv, m) in &scan.place_calls {
            for p in self.places_written_through(recv, m) {
                if self.written.contains(&p) && !out.contains(&(p.clone(), true)) {
                    out.push((p, true));
                }
            }
        }
        for t in &scan.pushed {
            if let Some(p) = self.path_of(t) {
                if self.written.contains(&p) && !out.contains(&(p.clone(), true)) {
                    out.push((p, true));
                }
            }
        }
        for t in &scan.assigned {
            let t = match rec_elem_target(t) {
                Some((l, _, _)) if self.path_of(l).is_some() => l,
                _ => t,
            };
            if self.vm_mode {
                // a component of the interpreter state (carried by `vm_`), whatever accessors spell it
                if vm_place(&compact(&toks(t))).is_some() {
                    continue;
                }
                if let Expr::Field(f) = t {
                    if matches!(&f.member, syn::Member::Named(n) if n == "caller") {
                        continue;
                    }
                }
            }
            if let Expr::Unary(u) = t {
                if let (UnOp::Deref(_), Expr::Path(pp)) = (&u.op, &*u.expr) {
                    let n = path_segments(&pp.path).join("::");
                    if self.lookup(&n).is_none() && !self.aliases.contains_key(&n) && !self.struct_params.contains_key(&n) && n != "self" {
                        // `*x = v` through a reference declared inside (`let x = &mut LIST[i];` is recorded as a write of LIST[i])
                        continue;
                    }
                }
            }
            if let Expr::Index(ix) = t {
                if let Expr::Path(pp) = &*ix.expr {
                    let n = path_segments(&pp.path).join("::");
                    if pp.path.segments.len() == 1 && n != "self" && !self.struct_params.contains_key(&n) && !self.aliases.contains_key(&n) {
                        match self.lookup(&n) {
                            Some(Var { ty: LT::List(_), .. }) => {
                                if !out.contains(&(n.clone(), false)) {
                                    out.push((n, false));
                                }
                                continue;
                            }
                            Some(_) => return self.un(format!("assignment target `{}` not modelled", toks(t))),
                            None => continue, // a list declared inside
                        }
                    }
                }
            }
            let item = if let Some(p) = self.path_of(t) {
                (p, true)
            } else if let Expr::Path(p) = t {
                let n = path_segments(&p.path).join("::");
                if self.lookup(&n).is_none() {
                    continue; // declared inside
                }
                (n, false)
            } else if let Expr::Index(ix) = t {
                match self.path_of(&ix.expr) {
                    Some(p) => (p, true),
                    None => return self.un(format!("assignment target `{}` not modelled", toks(t))),
                }
            } else {
                return self.un(format!("assignment target `{}` not modelled", toks(t)));
            };
            if !out.contains(&item) {
                out.push(item);
            }
        }
        if effects && self.has_effects {
            out.push(("effs_".into(), false));
        }
        if self.vm_mode {
            out.retain(|(n, is_place)| !(*is_place && vm_place(n).is_some()));
            if !out.iter().any(|(n, _)| n == "vm_") {
                out.push(("vm_".into(), false));
            }
        }
        Ok(out)
    }

    fn rebind_joined(&mut self, vars: &[(String, bool)], jv: &str) -> R<String> {
        // `let a := j.1; let b := j.2.1; …` re-establishing the joined variables from the tuple `jv`
        let n = vars.len();
        let mut lets = String::new();
        for (k, (name, is_place)) in vars.iter().enumerate() {
            let proj = if n == 1 {
                jv.to_string()
            } else {
                let mut t = jv.to_string();
                for _ in 0..k {
                    t = format!("{}.2", t);
                }
                if k + 1 < n {
                    t = format!("{}.1", t);
                }
                t
            };
            let lean = if *is_place {
                self.place(name)?.lean
            } else if name == "effs_" || name == "vm_" {
                name.clone()
            } else {
                self.lookup(name).map(|v| v.lean).unwrap_or_else(|| lean_ident(name))
            };
            lets.push_str(&format!("let {} := {};\n  ", lean, proj));
        }
        Ok(lets)
    }

    fn effect(&mut self, name: &str, args: Vec<String>) -> String {
        self.has_effects = true;
        format!("let effs_ := effs_ ++ [Rs.Eff.mk {} [{}]];\n  ", lean_str(name), args.join(", "))
    }

    fn arg_text(&mut self, e: &Expr) -> (Vec<Pre>, String) {
        // an argument of an opaque call: its value when the translator models it, its source text otherwise
        // (an array literal `[a, b]`: its elements, one after the other)
        if let Expr::Array(arr) = e {
            let mut pre = Vec::new();
            let mut parts = Vec::new();
            for el in arr.elems.iter() {
                let (p, t) = self.arg_text(el);
                pre.extend(p);
                parts.push(t);
            }
            if !parts.is_empty() {
                return (pre, parts.join(", "));
            }
        }
        let save_inputs = self.inputs.len();
        let save_places = self.places.clone();
        match self.expr(e, None) {
            Ok(tx) => {
                let t = match &tx.ty {
                    LT::I(_) => format!("(Rs.Arg.i {})", tx.term),
                    LT::BV(_) => format!("(Rs.Arg.n ({}).toNat)", tx.term),
                    LT::Bool => format!("(Rs.Arg.b {})", tx.term),
                    LT::Str => format!("(Rs.Arg.s {})", tx.term),
                    LT::Enum(n) => format!("(Rs.Arg.s (Fns.{}.name {}))", n, tx.term),
                    _ => {
                        self.inputs.truncate(save_inputs);
                        self.places = save_places;
                        return (vec![], format!("(Rs.Arg.s {})", lean_str(&compact(&toks(e)))));
                    }
                };
                (tx.pre, t)
            }
            Err(_) => {
                self.inputs.truncate(save_inputs);
                self.places = save_places;
                (vec![], format!("(Rs.Arg.s {})", lean_str(&compact(&toks(e)))))
            }
        }
    }

    /// Return type of an inherent method of the self type that takes `&mut self`.
    /// The caller's places that `RECV.m(..)` writes when `m` is a translated method of the struct at RECV.
    fn places_written_through(&mut self, recv: &Expr, m: &str) -> Vec<String> {
        let rp = match self.path_of(recv) {
            Some(p) if p.contains('.') => p,
            Some(p) if p == "self" && self.self_ty.as_deref().map(|o| INLINE_SELF_CALL_OWNERS.contains(&o)).unwrap_or(false) => {
                let head = self.self_ty.clone().unwrap();
                return match self.callees.get(&format!("{}::{}", head, m)) {
                    Some(s) if s.simple || s.simple_fuel => s.written.clone(),
                    _ => vec![],
                };
            }
            _ => return vec![],
        };
        let comps: Vec<String> = rp.split('.').skip(1).map(|s| s.to_string()).collect();
        let root = rp.split('.').next().unwrap_or("self").to_string();
        let mut rty = match self.place_type(&root, &comps) {
            Ok(t) => t,
            Err(_) => return vec![],
        };
        loop {
            match &rty {
                Ty::Ref(i) => rty = (**i).clone(),
                Ty::Path { name, args } if TRANSPARENT.contains(&name.as_str()) && args.len() == 1 => rty = args[0].clone(),
                _ => break,
            }
        }
        let head = match rty.head() {
            Some(h) => h.to_string(),
            None => return vec![],
        };
        match self.callees.get(&format!("{}::{}", head, m)) {
            Some(s) if s.simple => s.written.iter().map(|w| format!("{}.{}", rp, w.strip_prefix("self.").unwrap_or(w))).collect(),
            _ => vec![],
        }
    }

    fn method_takes_shared_self(&self, m: &str) -> bool {
        let st = match &self.self_ty {
            Some(s) => s.clone(),
            None => return false,
        };
        for im in &self.db.impls {
            if im.self_ty.head() == Some(st.as_str()) {
                for f in &im.fns {
                    if f.sig.ident == m {
                        return matches!(f.sig.inputs.first(), Some(syn::FnArg::Receiver(r)) if r.mutability.is_none() && r.reference.is_some());
                    }
                }
            }
        }
        false
    }

    fn interior_mutable_fields(&self) -> Vec<String> {
        let st = match &self.self_ty {
            Some(s) => s.clone(),
            None => return vec![],
        };
        match self.db.structs.get(&st) {
            Some(v) if v.len() == 1 => v[0]
                .fields
                .iter()
                .filter(|(_, t)| {
                    let text = format!("{}", t);
                    text.contains("Cell<") || text.contains("RefCell<") || text.contains("Mutex<") || text.contains("Atomic")
                })
                .map(|(n, _)| n.clone())
                .collect(),
            _ => vec![],
        }
    }

    fn method_exists_on(&self, owner: &str, m: &str) -> bool {
        self.db.impls.iter().any(|im| im.self_ty.head() == Some(owner) && im.fns.iter().any(|f| f.sig.ident == m))
    }

    /// (takes `&mut self`, return type) of the inherent method `owner::m`, when it has a return type.
    fn method_sig_on(&self, owner: &str, m: &str) -> Option<(bool, Ty)> {
        for im in &self.db.impls {
            if im.self_ty.head() == Some(owner) {
                for f in &im.fns {
                    if f.sig.ident == m {
                        let is_mut = matches!(f.sig.inputs.first(), Some(syn::FnArg::Receiver(r)) if r.mutability.is_some());
                        return match &f.sig.output {
                            syn::ReturnType::Type(_, t) => Some((is_mut, convert_type(t))),
                            syn::ReturnType::Default => None,
                        };
                    }
                }
            }
        }
        None
    }

    #[allow(dead_code)]
    fn mut_self_method_ret(&self, m: &str) -> Option<Ty> {
        let st = self.self_ty.clone()?;
        for im in &self.db.impls {
            if im.self_ty.head() == Some(st.as_str()) {
                for f in &im.fns {
                    if f.sig.ident == m {
                        let is_mut = matches!(f.sig.inputs.first(), Some(syn::FnArg::Receiver(r)) if r.mutability.is_some());
                        if !is_mut {
                            return None;
                        }
                        return match &f.sig.output {
                            syn::ReturnType::Type(_, t) => Some(convert_type(t)),
                            syn::ReturnType::Default => None,
                        };
                    }
                }
            }
        }
        None
    }

    fn ignored_cfg_block(&self, cond: &Expr) -> bool {
        if let Some(m) = is_cfg_macro(cond) {
            let t = compact(&m.tokens.to_string());
            return self.ignore_cfg_features.iter().any(|f| t == format!("feature = \"{}\"", f) || t == format!("feature=\"{}\"", f));
        }
        false
    }

    /// The Lean variable that currently holds a list which may be rewritten: a local vector, or a `self` place that is written.
    fn list_lvalue(&mut self, base: &Expr) -> R<Var> {
        let base = match base {
            Expr::Paren(p) => &*p.expr,
            Expr::Reference(r) => &*r.expr,
            other => other,
        };
        if let Expr::Path(pp) = base {
            if pp.path.segments.len() == 1 {
                let n = pp.path.segments[0].ident.to_string();
                if let Some(v) = self.lookup(&n) {
                    if matches!(v.ty, LT::List(_)) {
                        return Ok(v);
                    }
                }
            }
        }
        if let Some(p) = self.path_of(base) {
            if self.vm_mode && vm_place(&p).is_some() {
                return self.un(format!("list `{}` is a component of the abstract interpreter state", p));
            }
            if !self.written.contains(&p) {
                return self.un(format!("internal: write to `{}` missed by the pre-pass", p));
            }
            let v = self.place(&p)?;
            if matches!(v.ty, LT::List(_)) {
                return Ok(v);
            }
        }
        self.un(format!("`{}` is not a list the translator can rewrite", toks(base)))
    }

    /// `name` as introduced by `let name = &mut LIST[i];`
    fn elem_alias_of(&self, e: &Expr) -> Option<(Expr, Expr)> {
        let e = match e {
            Expr::Paren(p) => &*p.expr,
            Expr::Unary(u) if matches!(u.op, UnOp::Deref(_)) => &*u.expr,
            other => other,
        };
        if let Expr::Path(pp) = e {
            if pp.path.segments.len() == 1 {
                let n = pp.path.segments[0].ident.to_string();
                if self.lookup(&n).is_none() {
                    return self.elem_aliases.get(&n).cloned();
                }
            }
        }
        None
    }

    fn assign_to(&mut self, target: &Expr, value: Tx, rest: &[Stmt], k: &Kont) -> R<String> {
        if self.stack_mode() {
            if let Expr::Unary(u) = target {
                if matches!(u.op, UnOp::Deref(_)) {
                    // `*p = v` for a pointer into the boxed array
                    let p = self.expr(&u.expr, Some(&LT::I("isize")))?;
                    if p.ty != LT::I("isize") || value.ty != LT::Value {
                        return self.un("store through something that is not a pointer into the stack's array");
                    }
                    if !self.written.contains(&"self.stack".to_string()) {
                        return self.un("internal: write to `self.stack` missed by the pre-pass");
                    }
                    let arr = self.place("self.stack")?;
                    let mut pre = value.pre;
                    pre.extend(p.pre);
                    let v = self.fresh("t");
                    pre.push(Pre::Bind(v.clone(), format!("(Rs.setIdx {} {} {})", arr.lean, p.term, value.term)));
                    let body = self.block(rest, k)?;
                    return Ok(wrap_pre(&pre, format!("(let {} := {};\n  {})", arr.lean, v, body)));
                }
            }
        }
        if let Some((l, i)) = self.elem_alias_of(target) {
            // `*x = v` where `let x = &mut LIST[i];`
            let lv = self.list_lvalue(&l)?;
            let et = match &lv.ty {
                LT::List(t) => (**t).clone(),
                _ => unreachable!(),
            };
            if et != value.ty {
                return self.un(format!("assignment through `{}`: modelled types differ ({:?} / {:?})", toks(target), et, value.ty));
            }
            let ix = self.expr(&i, Some(&LT::I("usize")))?;
            let mut pre = value.pre;
            pre.extend(ix.pre);
            let v = self.fresh("t");
            pre.push(Pre::Bind(v.clone(), format!("(Rs.setIdx {} {} {})", lv.lean, ix.term, value.term)));
            let body = self.block(rest, k)?;
            return Ok(wrap_pre(&pre, format!("(let {} := {};\n  {})", lv.lean, v, body)));
        }
        if self.vm_mode {
            if let Some(p) = self.path_of(target).or_else(|| Some(compact(&toks(target)))) {
                if let Some((term, ty)) = vm_place(&p) {
                    if ty != value.ty {
                        return self.un(format!("assignment to `{}`: modelled types differ", p));
                    }
                    let field = term.trim_start_matches("vm_.");
                    let body = self.block(rest, k)?;
                    if field == "frameIp" {
                        // `current_frame_mut().unwrap()`: there must be a frame
                        let mut pre = value.pre;
                        let v = self.fresh("t");
                        pre.push(Pre::Bind(v.clone(), format!("(Rs.Vm.setFrameIp vm_ {})", value.term)));
                        return Ok(wrap_pre(&pre, format!("(let vm_ := {};\n  {})", v, body)));
                    }
                    return Ok(wrap_pre(&value.pre, format!("(let vm_ := {{ vm_ with {} := {} }};\n  {})", field, value.term, body)));
                }
            }
            if let Expr::Field(f) = target {
                if matches!(&f.member, syn::Member::Named(n) if n == "caller") {
                    // `<some fiber>.borrow_mut().caller = c`
                    let save = (self.inputs.len(), self.places.clone());
                    if let Ok(b) = self.expr(&f.base, None) {
                        if b.ty == LT::FiberId {
                            if value.ty != LT::Opt(Box::new(LT::FiberId)) {
                                return self.un("assignment to a fiber's `caller`: the value is not an optional fiber");
                            }
                            let mut pre = b.pre;
                            pre.extend(value.pre);
                            let v = self.fresh("t");
                            pre.push(Pre::Bind(v.clone(), format!("(Rs.Vm.setCallerOf vm_ {} {})", b.term, value.term)));
                            let body = self.block(rest, k)?;
                            return Ok(wrap_pre(&pre, format!("(let vm_ := {};\n  {})", v, body)));
                        }
                    }
                    self.inputs.truncate(save.0);
                    self.places = save.1;
                }
            }
            if let Expr::Index(ix) = target {
                if let Some(p) = self.path_of(&ix.expr) {
                    if let Some((term, LT::List(elem))) = vm_place(&p) {
                        if *elem != value.ty {
                            return self.un(format!("element assignment into `{}`: modelled types differ", p));
                        }
                        let i = self.expr(&ix.index, Some(&LT::I("usize")))?;
                        let mut pre = i.pre;
                        pre.extend(value.pre);
                        let v = self.fresh("t");
                        pre.push(Pre::Bind(v.clone(), format!("(Rs.setIdx {} {} {})", term, i.term, value.term)));
                        let field = term.trim_start_matches("vm_.");
                        let body = self.block(rest, k)?;
                        return Ok(wrap_pre(&pre, format!("(let vm_ := {{ vm_ with {} := {} }};\n  {})", field, v, body)));
                    }
                }
            }
        }
        if let Some((lexpr, idx, fname)) = rec_elem_target(target) {
            if let Some(p) = self.path_of(lexpr) {
                if self.written.contains(&p) {
                    let cur = self.place(&p)?;
                    if let LT::List(et) = &cur.ty {
                        if let LT::Rec(_, fs) = &**et {
                            if let Some(kf) = fs.iter().position(|(n, _)| *n == fname) {
                                if fs[kf].1 != value.ty {
                                    return self.un(format!("assignment to field `{}` of an element of `{}`: modelled types differ", fname, p));
                                }
                                let n = fs.len();
                                let mut comps = Vec::new();
                                for j in 0..n {
                                    if j == kf {
                                        comps.push(value.term.clone());
                                    } else {
                                        let mut term = "e_".to_string();
                                        for _ in 0..j {
                                            term = format!("{}.2", term);
                                        }
                                        if j + 1 < n {
                                            term = format!("{}.1", term);
                                        }
                                        comps.push(term);
                                    }
                                }
                                let upd = format!("(fun e_ => ({}))", comps.join(", "));
                                let mut pre = value.pre;
                                let v = self.fresh("t");
                                match idx {
                                    Some(ie) => {
                                        let i = self.expr(ie, Some(&LT::I("usize")))?;
                                        pre.extend(i.pre);
                                        pre.push(Pre::Bind(v.clone(), format!("(Rs.modifyIdx {} {} {})", cur.lean, i.term, upd)));
                                    }
                                    None => pre.push(Pre::Bind(v.clone(), format!("(Rs.modifyLast {} {})", cur.lean, upd))),
                                }
                                let body = self.block(rest, k)?;
                                return Ok(wrap_pre(&pre, format!("(let {} := {};\n  {})", cur.lean, v, body)));
                            }
                        }
                    }
                }
            }
        }
        if let Some(p) = self.path_of(target) {
            if !self.written.contains(&p) {
                return self.un(format!("internal: write to `{}` missed by the pre-pass", p));
            }
            let cur = self.place(&p)?;
            if cur.ty != value.ty {
                return self.un(format!("assignment to `{}`: modelled types differ ({:?} / {:?})", p, cur.ty, value.ty));
            }
            // a flag of the compiler that the parser's callbacks read (`in_try_block`, ...): the store is part of the observable order of
            // what the statement compiler does, so it is logged among the calls it makes
            let log = if self.self_ty.as_deref() == Some("Parser") && !self.vm_mode && value.ty == LT::Bool {
                self.effect(&format!("store {}", p), vec![format!("(Rs.Arg.b {})", value.term)])
            } else if self.self_ty.as_deref() == Some("Parser") && !self.vm_mode && matches!(value.ty, LT::I(_)) {
                self.effect(&format!("store {}", p), vec![format!("(Rs.Arg.i {})", value.term)])
            } else {
                String::new()
            };
            let body = self.block(rest, k)?;
            return Ok(wrap_pre(&value.pre, format!("(let {} := {};\n  {}{})", cur.lean, value.term, log, body)));
        }
        if let Expr::Path(pth) = target {
            let n = path_segments(&pth.path).join("::");
            if let Some(v) = self.lookup(&n) {
                if v.ty != value.ty {
                    return self.un(format!("assignment to `{}`: modelled types differ ({:?} / {:?})", n, v.ty, value.ty));
                }
                let body = self.block(rest, k)?;
                return Ok(wrap_pre(&value.pre, format!("(let {} := {};\n  {})", v.lean, value.term, body)));
            }
        }
        if let Expr::Index(ix) = target {
            if let Expr::Path(pp) = &*ix.expr {
                if pp.path.segments.len() == 1 {
                    if let Some(lv @ Var { ty: LT::List(_), .. }) = self.lookup(&pp.path.segments[0].ident.to_string()) {
                        let et = match &lv.ty {
                            LT::List(t) => (**t).clone(),
                            _ => unreachable!(),
                        };
                        if et != value.ty {
                            return self.un(format!("element assignment into `{}`: modelled types differ", toks(&*ix.expr)));
                        }
                        let i = self.expr(&ix.index, Some(&LT::I("usize")))?;
                        let mut pre = i.pre;
                        pre.extend(value.pre);
                        let v = self.fresh("t");
                        pre.push(Pre::Bind(v.clone(), format!("(Rs.setIdx {} {} {})", lv.lean, i.term, value.term)));
                        let body = self.block(rest, k)?;
                        return Ok(wrap_pre(&pre, format!("(let {} := {};\n  {})", lv.lean, v, body)));
                    }
                }
            }
            if let Some(p) = self.path_of(&ix.expr) {
                let cur = self.place(&p)?;
                let i = self.expr(&ix.index, Some(&LT::I("usize")))?;
                let mut pre = i.pre;
                pre.extend(value.pre);
                let v = self.fresh("t");
                pre.push(Pre::Bind(v.clone(), format!("(Rs.setIdx {} {} {})", cur.lean, i.term, value.term)));
                let body = self.block(rest, k)?;
                return Ok(wrap_pre(&pre, format!("(let {} := {};\n  {})", cur.lean, v, body)));
            }
        }
        self.un(format!("assignment target `{}` not modelled", toks(target)))
    }

    fn opaque_call(&mut self, e: &Expr, rest: &[Stmt], k: &Kont) -> R<String> {
        // a call whose callee is not translated, used as a statement: recorded as an effect, in order
        let (name, args, mutates_self): (String, Vec<&Expr>, bool) = match e {
            Expr::MethodCall(m) => {
                let recv = match self.path_of(&m.receiver) {
                    Some(p) => p,
                    None => return self.un(format!("opaque call `{}`: receiver is not a place", truncate_chars(&compact(&toks(e)), 60))),
                };
                (format!("{}.{}", recv, m.method), m.args.iter().collect(), true)
            }
            Expr::Call(c) => (compact(&toks(&*c.func)), c.args.iter().collect(), false),
            _ => return self.un("internal: opaque_call on a non-call"),
        };
        let mut pre = Vec::new();
        let mut texts = Vec::new();
        for a in args {
            let (p, t) = self.arg_text(a);
            pre.extend(p);
            texts.push(t);
        }
        let eff = self.effect(&name, texts);
        if mutates_self {
            // a method that takes `&self` can only change fields with interior mutability (Cell / RefCell): the other places stay
            let shared = name.starts_with("self.") && !name[5..].contains('.') && self.method_takes_shared_self(&name[5..]);
            if shared {
                let cells: Vec<String> = self.interior_mutable_fields();
                self.places.retain(|p, _| !cells.iter().any(|c| p == &format!("self.{}", c) || p.starts_with(&format!("self.{}.", c))));
            } else {
                self.invalidate_places_after(&name);
            }
        }
        let body = self.block(rest, k)?;
        Ok(wrap_pre(&pre, format!("({}{})", eff, body)))
    }

    fn stmt_if(&mut self, i: &syn::ExprIf, rest: &[Stmt], k: &Kont, is_tail: bool) -> R<String> {
        if self.ignored_cfg_block(&i.cond) && i.else_branch.is_none() {
            return self.block(rest, k);
        }
        // `if let Value::Number(n) = value { … } else { … }`
        if let Expr::Let(l) = &*i.cond {
            return self.stmt_if_let(l, i, rest, k, is_tail);
        }
        let c = self.cond(&i.cond)?;
        let then_scan = scan_block(&i.then_branch);
        let else_scan = i.else_branch.as_ref().map(|(_, e)| scan_expr(e));
        let exits = then_scan.has_exit
            || else_scan.as_ref().map(|s| s.has_exit).unwrap_or(false)
            || (!self.for_konts.is_empty() && (then_scan.has_break || else_scan.as_ref().map(|s| s.has_break).unwrap_or(false)))
            || (!self.cont_konts.is_empty() && (then_scan.has_continue || else_scan.as_ref().map(|s| s.has_continue).unwrap_or(false)));
        let value_tail = is_tail && rest.is_empty() && i.else_branch.is_some() && matches!(k, Kont::Return);
        if exits || value_tail {
            // inline the rest of the enclosing block into both branches
            let snapshot = self.snapshot();
            let mut then_stmts: Vec<Stmt> = i.then_branch.stmts.clone();
            let then_tail_value = value_tail;
            if !then_tail_value {
                then_stmts = seal(then_stmts);
            }
            then_stmts.extend_from_slice(rest);
            self.scopes.push(BTreeMap::new());
            let t = self.block(&then_stmts, k)?;
            self.scopes.pop();
            self.restore(&snapshot);
            let f = match &i.else_branch {
                None => self.block(rest, k)?,
                Some((_, e)) => {
                    let mut stmts: Vec<Stmt> = match &**e {
                        Expr::Block(b) => b.block.stmts.clone(),
                        other => vec![Stmt::Expr(other.clone(), None)],
                    };
                    if !value_tail {
                        stmts = seal(stmts);
                    }
                    stmts.extend_from_slice(rest);
                    self.scopes.push(BTreeMap::new());
                    let f = self.block(&stmts, k)?;
                    self.scopes.pop();
                    f
                }
            };
            self.restore(&snapshot);
            return Ok(wrap_pre(&c.pre, format!("(if {} then\n  {}\n  else\n  {})", c.term, t, f)));
        }
        // no exits: the branches meet again; the assigned variables are handed over as a tuple
        let mut all = Scan { has_break: false, has_continue: false, has_exit: false, assigned: then_scan.assigned.clone(), pushed: then_scan.pushed.clone(), place_calls: then_scan.place_calls.clone(), calls: then_scan.calls };
        if let Some(s) = &else_scan {
            all.assigned.extend(s.assigned.clone());
            all.pushed.extend(s.pushed.clone());
            all.place_calls.extend(s.place_calls.clone());
            all.calls |= s.calls;
        }
        let had_effects = self.has_effects;
        let snapshot = self.snapshot();
        // first pass to learn whether the branches have effects
        let mut vars = self.assigned_outer(&all, false)?;
        let try_branches = |cx: &mut Self, vars: &Vec<(String, bool)>| -> R<(String, String)> {
            let kj = Kont::Join(vars.clone());
            cx.scopes.push(BTreeMap::new());
            let t = cx.block(&seal(i.then_branch.stmts.clone()), &kj);
            cx.scopes.pop();
            let t = t?;
            cx.restore_keep_effects(&snapshot);
            let f = match &i.else_branch {
                None => cx.finish(&kj, None)?,
                Some((_, e)) => {
                    let stmts: Vec<Stmt> = match &**e {
                        Expr::Block(b) => b.block.stmts.clone(),
                        other => vec![Stmt::Expr(other.clone(), Some(Default::default()))],
                    };
                    cx.scopes.push(BTreeMap::new());
                    let f = cx.block(&seal(stmts), &kj);
                    cx.scopes.pop();
                    f?
                }
            };
            cx.restore_keep_effects(&snapshot);
            Ok((t, f))
        };
        let hard_before = self.hard_inval;
        let (mut t, mut f) = try_branches(self, &vars)?;
        if self.has_effects && !vars.iter().any(|(n, _)| n == "effs_") && (all.calls || !had_effects) {
            // the branches record effects: hand the effect list over as well
            vars.push(("effs_".into(), false));
            let r = try_branches(self, &vars)?;
            t = r.0;
            f = r.1;
        }
        // a branch that made an opaque `&mut self` call invalidates the places for what follows
        if all.calls && self.has_effects {
            if self.hard_inval != hard_before {
                self.invalidate_places();
            } else {
                // only `&self` callees ran in the branches: fields with interior mutability may have changed, nothing else
                let cells: Vec<String> = self.interior_mutable_fields();
                self.places.retain(|p, _| !cells.iter().any(|c| p == &format!("self.{}", c) || p.starts_with(&format!("self.{}.", c))));
            }
        }
        let jv = self.fresh("j");
        let lets = self.rebind_joined(&vars, &jv)?;
        let body = self.block(rest, k)?;
        Ok(wrap_pre(
            &c.pre,
            format!("(Rs.M.bind (if {} then\n  {}\n  else\n  {}) fun {} =>\n  {}{})", c.term, t, f, jv, lets, body),
        ))
    }

    fn stmt_if_let(&mut self, l: &syn::ExprLet, i: &syn::ExprIf, rest: &[Stmt], k: &Kont, _is_tail: bool) -> R<String> {
        let scrut = self.expr(&l.expr, None)?;
        let (ctor, binder) = match (&*l.pat, &scrut.ty) {
            (Pat::TupleStruct(ts), LT::Value) if toks(&ts.path).replace(' ', "") == "Value::Number" && ts.elems.len() == 1 => {
                let (n, _) = self.simple_pat(&ts.elems[0])?;
                ("Rs.Value.Number".to_string(), (n, LT::F64))
            }
            (Pat::TupleStruct(ts), LT::Opt(t)) if toks(&ts.path) == "Some" && ts.elems.len() == 1 && matches!(&ts.elems[0], Pat::Ident(_)) => {
                let (n, _) = self.simple_pat(&ts.elems[0])?;
                ("some".to_string(), (n, (**t).clone()))
            }
            (Pat::TupleStruct(ts), LT::Opt(_)) if toks(&ts.path) == "Some" && ts.elems.len() == 1 => {
                return self.stmt_if_let_general(l, i, rest, k, scrut);
            }
            (p, t) => return self.un(format!("`if let {}` on {:?} not modelled", toks(p), t)),
        };
        let snapshot = self.snapshot();
        let mut then_stmts = seal(i.then_branch.stmts.clone());
        let tail_value = rest.is_empty() && matches!(k, Kont::Return);
        if tail_value {
            then_stmts = i.then_branch.stmts.clone();
        }
        then_stmts.extend_from_slice(rest);
        self.scopes.push(BTreeMap::new());
        let lean = self.declare(&binder.0, binder.1);
        let t = self.block(&then_stmts, k)?;
        self.scopes.pop();
        self.restore(&snapshot);
        let f = match &i.else_branch {
            None => self.block(rest, k)?,
            Some((_, e)) => {
                let mut stmts: Vec<Stmt> = match &**e {
                    Expr::Block(b) => b.block.stmts.clone(),
                    other => vec![Stmt::Expr(other.clone(), None)],
                };
                if !tail_value {
                    stmts = seal(stmts);
                }
                stmts.extend_from_slice(rest);
                self.scopes.push(BTreeMap::new());
                let f = self.block(&stmts, k)?;
                self.scopes.pop();
                f
            }
        };
        self.restore(&snapshot);
        Ok(wrap_pre(&scrut.pre, format!("(match {} with\n  | {} {} =>\n  {}\n  | _ =>\n  {})", scrut.term, ctor, lean, t, f)))
    }

    fn stmt_if_let_general(&mut self, l: &syn::ExprLet, i: &syn::ExprIf, rest: &[Stmt], k: &Kont, scrut: Tx) -> R<String> {
        let snapshot = self.snapshot();
        let tail_value = rest.is_empty() && matches!(k, Kont::Return);
        let mut then_stmts = if tail_value { i.then_branch.stmts.clone() } else { seal(i.then_branch.stmts.clone()) };
        then_stmts.extend_from_slice(rest);
        self.scopes.push(BTreeMap::new());
        let sty = scrut.ty.clone();
        let pat = self.pattern(&l.pat, &sty)?;
        let t = self.block(&then_stmts, k)?;
        self.scopes.pop();
        self.restore(&snapshot);
        let f = match &i.else_branch {
            None => self.block(rest, k)?,
            Some((_, e)) => {
                let mut stmts: Vec<Stmt> = match &**e {
                    Expr::Block(b) => b.block.stmts.clone(),
                    other => vec![Stmt::Expr(other.clone(), None)],
                };
                if !tail_value {
                    stmts = seal(stmts);
                }
                stmts.extend_from_slice(rest);
                self.scopes.push(BTreeMap::new());
                let f = self.block(&stmts, k)?;
                self.scopes.pop();
                f
            }
        };
        self.restore(&snapshot);
        Ok(wrap_pre(&scrut.pre, format!("(match {} with\n  | {} =>\n  {}\n  | _ =>\n  {})", scrut.term, pat, t, f)))
    }

    fn snapshot(&self) -> (Vec<BTreeMap<String, Var>>, BTreeMap<String, Var>, BTreeMap<String, usize>, BTreeMap<String, String>) {
        let mut pv = self.place_version.clone();
        pv.insert("<epoch>".into(), self.epoch);
        (self.scopes.clone(), self.places.clone(), pv, self.aliases.clone())
    }

    fn restore(&mut self, s: &(Vec<BTreeMap<String, Var>>, BTreeMap<String, Var>, BTreeMap<String, usize>, BTreeMap<String, String>)) {
        self.scopes = s.0.clone();
        self.places = s.1.clone();
        self.place_version = s.2.clone();
        // the epoch never goes back: names of later reads stay distinct across branches
        self.aliases = s.3.clone();
    }

    fn restore_keep_effects(&mut self, s: &(Vec<BTreeMap<String, Var>>, BTreeMap<String, Var>, BTreeMap<String, usize>, BTreeMap<String, String>)) {
        self.restore(s)
    }

    fn block(&mut self, stmts: &[Stmt], k: &Kont) -> R<String> {
        let (first, rest) = match stmts.split_first() {
            Some(x) => x,
            None => return self.finish(k, None),
        };
        match first {
            Stmt::Local(l) => {
                let init = match &l.init {
                    Some(i) if i.diverge.is_none() => (*i.expr).clone(),
                    _ => return self.un("`let` without initialiser (or with `else`) not modelled"),
                };
                // `let x = if let P = S { E } else { …; return … };`
                if let Expr::If(ii) = &init {
                    if let (Expr::Let(il), Some((_, els))) = (&*ii.cond, &ii.else_branch) {
                        let els_stmts: Vec<Stmt> = match &**els {
                            Expr::Block(b) => b.block.stmts.clone(),
                            other => vec![Stmt::Expr(other.clone(), Some(Default::default()))],
                        };
                        let diverges = matches!(els_stmts.last(), Some(Stmt::Expr(Expr::Return(_), _)));
                        if diverges {
                            let scrut = self.expr(&il.expr, None)?;
                            let snapshot = self.snapshot();
                            self.scopes.push(BTreeMap::new());
                            let sty = scrut.ty.clone();
                            let pat = self.pattern(&il.pat, &sty)?;
                            let mut local = l.clone();
                            if let Some(li) = local.init.as_mut() {
                                li.expr = Box::new(Expr::Block(syn::ExprBlock { attrs: vec![], label: None, block: ii.then_branch.clone() }));
                            }
                            let mut v = vec![Stmt::Local(local)];
                            v.extend_from_slice(rest);
                            let then_body = self.block(&v, k)?;
                            self.scopes.pop();
                            self.restore(&snapshot);
                            self.scopes.push(BTreeMap::new());
                            let else_body = self.block(&els_stmts, k)?;
                            self.scopes.pop();
                            self.restore(&snapshot);
                            return Ok(wrap_pre(&scrut.pre, format!("(match {} with\n  | {} =>\n  {}\n  | _ =>\n  {})", scrut.term, pat, then_body, else_body)));
                        }
                    }
                }
                // `let PAT = match S { P => E, _ => { …; return … } };`: the arms that do not leave the function bind PAT and go on
                if let Expr::Match(mm) = &init {
                    let scrut = self.expr(&mm.expr, None)?;
                    let general = match &scrut.ty {
                        LT::Value | LT::Tup(_) | LT::Res(..) => true,
                        LT::Opt(t) => matches!(**t, LT::Tup(_)),
                        _ => false,
                    };
                    if general && mm.arms.iter().all(|a| a.guard.is_none()) {
                        let snapshot = self.snapshot();
                        let mut arms = String::new();
                        for a in &mm.arms {
                            self.restore(&snapshot);
                            self.scopes.push(BTreeMap::new());
                            let sty = scrut.ty.clone();
                            let pat = self.pattern(&a.pat, &sty)?;
                            let diverges = matches!(&*a.body, Expr::Block(b) if matches!(b.block.stmts.last(), Some(Stmt::Expr(Expr::Return(_), _))))
                                || matches!(&*a.body, Expr::Return(_));
                            let body = if diverges {
                                let v = match &*a.body {
                                    Expr::Block(b) => b.block.stmts.clone(),
                                    other => vec![Stmt::Expr(other.clone(), Some(Default::default()))],
                                };
                                self.block(&v, k)?
                            } else {
                                let mut local = l.clone();
                                if let Some(li) = local.init.as_mut() {
                                    li.expr = a.body.clone();
                                }
                                let mut v = vec![Stmt::Local(local)];
                                v.extend_from_slice(rest);
                                self.block(&v, k)?
                            };
                            self.scopes.pop();
                            arms.push_str(&format!("\n  | {} =>\n  {}", pat, body));
                        }
                        self.restore(&snapshot);
                        return Ok(wrap_pre(&scrut.pre, format!("(match {} with{})", scrut.term, arms)));
                    }
                }
                // tuple pattern
                if let Pat::Tuple(tp) = &l.pat {
                    let tx = self.expr(&init, None)?;
                    let tys = match &tx.ty {
                        LT::Tup(ts) if ts.len() == tp.elems.len() => ts.clone(),
                        t => return self.un(format!("tuple pattern against {:?}", t)),
                    };
                    let mut names = Vec::new();
                    for (p, t) in tp.elems.iter().zip(tys.iter()) {
                        if matches!(p, Pat::Wild(_)) {
                            names.push("_".to_string());
                            continue;
                        }
                        let (n, _) = self.simple_pat(p)?;
                        names.push(self.declare(&n, t.clone()));
                    }
                    let body = self.block(rest, k)?;
                    return Ok(wrap_pre(&tx.pre, format!("(match {} with\n  | ({}) =>\n  {})", tx.term, names.join(", "), body)));
                }
                let (name, ann) = self.simple_pat(&l.pat)?;
                // `let mut v = Vec::new();`: the element type is that of the first `v.push(e as T)` that follows
                if compact(&toks(&init)) == "Vec::new()" && ann.is_none() {
                    struct FindPush<'b> {
                        name: &'b str,
                        found: Option<syn::Type>,
                    }
                    impl<'ast, 'b> syn::visit::Visit<'ast> for FindPush<'b> {
                        fn visit_expr_method_call(&mut self, m: &'ast syn::ExprMethodCall) {
                            if self.found.is_none() && m.method == "push" && m.args.len() == 1 && toks(&*m.receiver) == self.name {
                                if let Expr::Cast(c) = &m.args[0] {
                                    self.found = Some((*c.ty).clone());
                                }
                            }
                            syn::visit::visit_expr_method_call(self, m);
                        }
                    }
                    let mut fp = FindPush { name: &name, found: None };
                    for st in rest {
                        syn::visit::Visit::visit_stmt(&mut fp, st);
                    }
                    let et = match fp.found {
                        Some(t) => self.syn_ty(&t),
                        None => return self.un(format!("`let {} = Vec::new()`: element type not evident from a later `push(e as T)`", name)),
                    };
                    let lean = self.declare(&name, LT::List(Box::new(et)));
                    let body = self.block(rest, k)?;
                    return Ok(format!("(let {} := [];\n  {})", lean, body));
                }
                if let Some(tyname) = self.havoc.get(&name).cloned() {
                    let lt = match int_ty(&tyname) {
                        Some(t) => t,
                        None => LT::Opaque,
                    };
                    let lean = self.declare(&name, lt.clone());
                    self.inputs.push((lean, lt, format!("`let {} = {}` is not translated: any value", name, truncate_chars(&compact(&toks(&init)), 60))));
                    return self.block(rest, k);
                }
                // `let x = self.m(args);` where `m` takes `&mut self` and is not translated: an effect whose answer is an input
                if let Expr::MethodCall(mc) = &init {
                    let intrinsic = self.vm_mode
                        && (matches!(mc.method.to_string().as_str(), "pop" | "read_byte" | "read_short" | "peek" | "try_handle_error")
                            || self.callees.get(&mc.method.to_string()).map(|s| s.lean.starts_with("vm_")).unwrap_or(false));
                    if !intrinsic && self.path_of(&mc.receiver).as_deref() == Some("self") {
                        if let Some(rt) = self.mut_self_method_ret(&mc.method.to_string()) {
                            let lt = self.conv(&rt);
                            if matches!(lt, LT::I(_) | LT::BV(_) | LT::Bool) {
                                let mut pre = Vec::new();
                                let mut texts = Vec::new();
                                for a in mc.args.iter() {
                                    let (p, t) = self.arg_text(a);
                                    pre.extend(p);
                                    texts.push(t);
                                }
                                let eff = self.effect(&format!("self.{}", mc.method), texts);
                                self.invalidate_places();
                                let lean = self.declare(&name, lt.clone());
                                self.inputs.push((lean, lt, format!("what the untranslated `self.{}(..)` answers", mc.method)));
                                let body = self.block(rest, k)?;
                                return Ok(wrap_pre(&pre, format!("({}{})", eff, body)));
                            }
                        }
                    }
                }
                // `let x = &mut LIST[i];` with `i` an immutable local: `x` stands for that element from here on
                if let Expr::Reference(r) = &init {
                    if r.mutability.is_some() {
                        if let Expr::Index(ix) = &*r.expr {
                            let idx_ok = match &*ix.index {
                                Expr::Path(pp) if pp.path.segments.len() == 1 => {
                                    let n = pp.path.segments[0].ident.to_string();
                                    // the index variable must not be assigned in what follows
                                    let reassigned = rest.iter().any(|st| {
                                        let mut sc = Scan { has_break: false, has_continue: false, has_exit: false, assigned: vec![], pushed: vec![], place_calls: vec![], calls: false };
                                        syn::visit::Visit::visit_stmt(&mut sc, st);
                                        sc.assigned.iter().any(|t| compact(&toks(t)) == n)
                                    });
                                    self.lookup(&n).is_some() && !reassigned
                                }
                                _ => false,
                            };
                            if !idx_ok {
                                return self.un("`let x = &mut LIST[i]` where `i` is not an unchanging local");
                            }
                            self.list_lvalue(&ix.expr)?;
                            self.scopes.last_mut().unwrap().remove(&name);
                            if self.lookup(&name).is_some() {
                                return self.un(format!("`let {} = &mut LIST[i]` shadows a local of an enclosing scope", name));
                            }
                            self.elem_aliases.insert(name.clone(), ((*ix.expr).clone(), (*ix.index).clone()));
                            return self.block(rest, k);
                        }
                    }
                }
                // alias of a place: `let borrowed = self.iterable.borrow();`
                if let Some(p) = self.path_of(&init) {
                    let comps: Vec<String> = p.split('.').skip(1).map(|s| s.to_string()).collect();
                    let root = p.split('.').next().unwrap_or("self").to_string();
                    if let Ok(t) = self.place_type(&root, &comps) {
                        if matches!(self.conv(&t), LT::Struct(_)) {
                            self.aliases.insert(name.clone(), p);
                            return self.block(rest, k);
                        }
                    }
                }
                let tx = self.expr(&init, ann.as_ref())?;
                let lean = self.declare(&name, tx.ty.clone());
                let body = self.block(rest, k)?;
                Ok(wrap_pre(&tx.pre, format!("(let {} := {};\n  {})", lean, tx.term, body)))
            }
            Stmt::Macro(m) => {
                let name = path_to_string(&m.mac.path);
                match name.as_str() {
                    "println" | "print" | "eprintln" | "debug_assert" => self.block(rest, k),
                    "panic" | "unreachable" => Ok("Rs.M.panic".into()),
                    other => self.un(format!("statement macro `{}!` not modelled", other)),
                }
            }
            Stmt::Item(_) => self.un("nested item in a function body"),
            Stmt::Expr(e, semi) => {
                let is_tail = semi.is_none() && rest.is_empty();
                match e {
                    Expr::Return(r) => {
                        let (term, ty) = match &r.expr {
                            Some(x) => {
                                let ret = self.ret_ty.clone();
                                let tx = self.expr(x, Some(&ret))?;
                                let out = self.finish(&Kont::Return, Some((tx.term.clone(), tx.ty.clone())))?;
                                return Ok(wrap_pre(&tx.pre, out));
                            }
                            None => ("()".to_string(), LT::Unit),
                        };
                        self.finish(&Kont::Return, Some((term, ty)))
                    }
                    Expr::Assign(a) => {
                        let hint = match self.path_of(&a.left) {
                            Some(p) => self.place(&p).ok().map(|v| v.ty),
                            None => match &*a.left {
                                Expr::Path(p) => self.lookup(&path_segments(&p.path).join("::")).map(|v| v.ty),
                                Expr::Index(ix) => match self.path_of(&ix.expr).and_then(|p| self.place(&p).ok()) {
                                    Some(Var { ty: LT::List(t), .. }) => Some(*t),
                                    _ => None,
                                },
                                _ => None,
                            },
                        };
                        let hint = match (&hint, &*a.left) {
                            (None, Expr::Field(f)) if self.vm_mode && matches!(&f.member, syn::Member::Named(n) if n == "caller") => Some(LT::Opt(Box::new(LT::FiberId))),
                            _ => hint,
                        };
                        let v = self.expr(&a.right, hint.as_ref())?;
                        self.assign_to(&a.left, v, rest, k)
                    }
                    Expr::Binary(b) if compound_base(&b.op).is_some() => {
                        let l = self.expr(&b.left, None)?;
                        let lt = l.ty.clone();
                        let r = self.expr(&b.right, Some(&lt))?;
                        if r.ty != lt {
                            return self.un(format!("compound assignment `{}`: modelled types differ", toks(e)));
                        }
                        let v = self.arith(&b.op, l, r)?;
                        self.assign_to(&b.left, v, rest, k)
                    }
                    Expr::If(i) => self.stmt_if(i, rest, k, is_tail),
                    Expr::Match(m) => self.stmt_match(m, rest, k),
                    Expr::ForLoop(f) => self.stmt_for(f, rest, k),
                    Expr::Loop(l) => self.stmt_loop(l, rest, k),
                    Expr::While(w) => self.stmt_while(w, rest, k),
                    Expr::MethodCall(mc) if self.gc_mode && semi.is_some() => match self.gc_statement(mc)? {
                        Some((pre, upd)) => {
                            let body = self.block(rest, k)?;
                            Ok(wrap_pre(&pre, format!("({}{})", upd, body)))
                        }
                        None => self.un(format!("statement `{}` of a collector pass not modelled", truncate_chars(&compact(&toks(e)), 60))),
                    },
                    Expr::Block(b) if semi.is_some() || !is_tail => {
                        let mut stmts = seal(b.block.stmts.clone());
                        stmts.extend_from_slice(rest);
                        self.block(&stmts, k)
                    }
                    Expr::Unsafe(u) if self.stack_mode() => {
                        // `unsafe { … }` in stack.rs: the pointer operations inside have their meaning over the boxed array
                        let mut stmts = if semi.is_some() || !is_tail { seal(u.block.stmts.clone()) } else { u.block.stmts.clone() };
                        stmts.extend_from_slice(rest);
                        self.block(&stmts, k)
                    }
                    Expr::Unsafe(_) => self.un("unsafe block not modelled (make its `let` a havoc input)"),
                    Expr::Macro(m) if matches!(path_to_string(&m.mac.path).as_str(), "println" | "print" | "eprintln" | "debug_assert") => {
                        self.block(rest, k)
                    }
                    Expr::Macro(m) if matches!(path_to_string(&m.mac.path).as_str(), "panic" | "unreachable") => Ok("Rs.M.panic".into()),
                    Expr::Try(_) if semi.is_some() => {
                        // `f(..)?;` for its effect: evaluated, the value discarded
                        let tx = self.expr(e, None)?;
                        let body = self.block(rest, k)?;
                        Ok(wrap_pre(&tx.pre, body))
                    }
                    Expr::Break(b) if b.expr.is_none() && b.label.is_none() && !self.for_konts.is_empty() => {
                        let (kont, brk) = self.for_konts.last().cloned().unwrap();
                        let lean = match self.lookup(&brk) {
                            Some(v) => v.lean,
                            None => return self.un("internal: break flag not in scope"),
                        };
                        let out = self.finish(&kont, None)?;
                        Ok(format!("(let {} := true;\n  {})", lean, out))
                    }
                    Expr::Continue(c) if c.label.is_none() && !self.cont_konts.is_empty() => {
                        let kont = self.cont_konts.last().cloned().unwrap();
                        self.finish(&kont, None)
                    }
                    // `v.push(x);` on a local vector
                    Expr::MethodCall(mc)
                        if mc.method == "push"
                            && mc.args.len() == 1
                            && matches!(&*mc.receiver, Expr::Path(p) if p.path.segments.len() == 1 && matches!(self.lookup(&p.path.segments[0].ident.to_string()), Some(Var { ty: LT::List(_), .. }))) =>
                    {
                        let n = match &*mc.receiver {
                            Expr::Path(p) => p.path.segments[0].ident.to_string(),
                            _ => unreachable!(),
                        };
                        let v = self.lookup(&n).unwrap();
                        let et = match &v.ty {
                            LT::List(t) => (**t).clone(),
                            _ => unreachable!(),
                        };
                        let x = self.expr(&mc.args[0], Some(&et))?;
                        if x.ty != et {
                            return self.un(format!("push onto `{}`: modelled types differ", n));
                        }
                        let body = self.block(rest, k)?;
                        Ok(wrap_pre(&x.pre, format!("(let {} := {} ++ [{}];\n  {})", v.lean, v.lean, x.term, body)))
                    }
                    // `self.<list>.pop();` for its effect
                    Expr::MethodCall(mc)
                        if mc.method == "pop"
                            && mc.args.is_empty()
                            && semi.is_some()
                            && matches!(&*mc.receiver, Expr::Field(_))
                            && self.path_of(&mc.receiver).map(|p| self.written.contains(&p)).unwrap_or(false) =>
                    {
                        let p = self.path_of(&mc.receiver).unwrap();
                        let cur = self.place(&p)?;
                        if !matches!(cur.ty, LT::List(_)) {
                            return self.un(format!("pop from `{}` of type {:?}", p, cur.ty));
                        }
                        let body = self.block(rest, k)?;
                        Ok(format!("(let {} := ({}).dropLast;\n  {})", cur.lean, cur.lean, body))
                    }
                    Expr::MethodCall(mc)
                        if mc.method == "push"
                            && mc.args.len() == 1
                            && matches!(&*mc.receiver, Expr::Field(_))
                            && self.path_of(&mc.receiver).map(|p| self.written.contains(&p)).unwrap_or(false) =>
                    {
                        let p = self.path_of(&mc.receiver).unwrap();
                        let cur = self.place(&p)?;
                        let et = match &cur.ty {
                            LT::List(t) => (**t).clone(),
                            t => return self.un(format!("push onto `{}` of type {:?}", p, t)),
                        };
                        let x = self.expr(&mc.args[0], Some(&et))?;
                        if x.ty != et {
                            return self.un(format!("push onto `{}`: modelled types differ", p));
                        }
                        let body = self.block(rest, k)?;
                        Ok(wrap_pre(&x.pre, format!("(let {} := {} ++ [{}];\n  {})", cur.lean, cur.lean, x.term, body)))
                    }
                    Expr::MethodCall(mc) if self.vm_mode && self.vm_statement(mc).is_some() => {
                        let (pre, upd) = self.vm_statement_tx(mc)?;
                        let body = self.block(rest, k)?;
                        Ok(wrap_pre(&pre, format!("({}{})", upd, body)))
                    }
                    Expr::MethodCall(mc) if self.vm_mode && semi.is_some() && self.is_translated_state_call(mc) => {
                        let tx = self.expr(e, None)?;
                        let body = self.block(rest, k)?;
                        Ok(wrap_pre(&tx.pre, body))
                    }
                    Expr::MethodCall(_) | Expr::Call(_) if semi.is_some() => {
                        // a translated method of the object itself (owners listed in INLINE_SELF_CALL_OWNERS), called for its effect
                        if let Expr::MethodCall(mc) = e {
                            if self.path_of(&mc.receiver).as_deref() == Some("self") {
                                if let Some(tx) = self.call_translated_on_place(mc)? {
                                    let body = self.block(rest, k)?;
                                    return Ok(wrap_pre(&tx.pre, body));
                                }
                            }
                        }
                        // a translated plain callee used for its value is handled by `expr`; a statement call is an effect
                        self.opaque_call(e, rest, k)
                    }
                    _ if is_tail => {
                        let want = match k {
                            Kont::Return => Some(self.ret_ty.clone()),
                            _ => None,
                        };
                        if self.ret_ty == LT::Opaque && matches!(k, Kont::Return) {
                            return self.finish(k, Some(("()".into(), LT::Opaque)));
                        }
                        let tx = self.expr(e, want.as_ref())?;
                        let out = self.finish(k, Some((tx.term.clone(), tx.ty.clone())))?;
                        Ok(wrap_pre(&tx.pre, out))
                    }
                    other => self.un(format!("statement `{}` not modelled", truncate_chars(&compact(&toks(other)), 80))),
                }
            }
        }
    }

    fn is_translated_state_call(&self, mc: &syn::ExprMethodCall) -> bool {
        let rp = match self.path_of(&mc.receiver) {
            Some(p) => p,
            None => return false,
        };
        let name = mc.method.to_string();
        let on_fiber = rp == "self.active_fiber()" || rp == "self.active_fiber_mut()" || (self.fiber_mode && rp == "self");
        if on_fiber && self.callees.contains_key(&format!("fiber::{}", name)) {
            return true;
        }
        if rp == "self" && !self.fiber_mode {
            return matches!(name.as_str(), "pop") || self.callees.get(&name).map(|s| s.lean.starts_with("vm_")).unwrap_or(false);
        }
        if let Some((term, _)) = vm_place(&rp) {
            return term == "vm_.handlers" && name == "pop";
        }
        false
    }

    fn vm_statement(&self, mc: &syn::ExprMethodCall) -> Option<()> {
        let rp = self.path_of(&mc.receiver)?;
        let on_vm = rp == "self" && !self.fiber_mode;
        let on_fiber = rp == "self.active_fiber()" || rp == "self.active_fiber_mut()" || (self.fiber_mode && rp == "self");
        match (mc.method.to_string().as_str(), mc.args.len()) {
            ("push", 1) | ("poke", 2) | ("discard", 1) | ("load_frame", 0) if on_vm => Some(()),
            ("close_upvalues", 1) if on_fiber => Some(()),
            ("close_upvalues_for_frame", 0) if on_fiber => Some(()),
            ("push_call_frame", 1) if on_fiber => Some(()),
            ("pop", 0) if rp.replace("active_fiber_mut()", "active_fiber()") == "self.active_fiber().frames" || (self.fiber_mode && rp == "self.frames") => Some(()),
            ("push", 1) | ("truncate", 1) if vm_place(&rp).is_some() => Some(()),
            ("truncate", 1) if rp.replace("active_fiber_mut()", "active_fiber()") == "self.active_fiber().frames" || (self.fiber_mode && rp == "self.frames") => Some(()),
            _ => None,
        }
    }

    /// `self.push(v);` / `self.poke(d, v);` / `self.discard(n);` on the abstract interpreter state
    fn vm_statement_tx(&mut self, mc: &syn::ExprMethodCall) -> R<(Vec<Pre>, String)> {
        let args: Vec<&Expr> = mc.args.iter().collect();
        let rp = self.path_of(&mc.receiver).unwrap_or_default();
        if rp != "self" || self.fiber_mode {
            // an operation on a place of the abstract state, or a fiber intrinsic
            let name = mc.method.to_string();
            if name == "close_upvalues" {
                let n = self.expr(args[0], Some(&LT::I("usize")))?;
                return Ok((n.pre, format!("let vm_ := Rs.Vm.closeUpvalues vm_ {};\n  ", n.term)));
            }
            if name == "close_upvalues_for_frame" {
                if self.method_body_of("ObjFiber", "close_upvalues_for_frame").as_deref() != Some("{let slot_base=self.current_frame().unwrap().slot_base;self.close_upvalues(slot_base);}") {
                    return self.un("ObjFiber::close_upvalues_for_frame is no longer `close_upvalues(current frame's slot_base)`");
                }
                let v = self.fresh("t");
                return Ok((vec![Pre::Bind(v.clone(), "(Rs.Vm.closeUpvaluesForFrame vm_)".into())], format!("let vm_ := {};\n  ", v)));
            }
            if name == "push_call_frame" {
                if self.method_body_of("ObjFiber", "push_call_frame").as_deref()
                    != Some("{let(ip,arity)=(closure.function.chunk.code.as_ptr(),closure.function.arity);self.frames.push(CallFrame{closure,ip,slot_base:self.stack.len()-arity})}")
                {
                    return self.un(format!("ObjFiber::push_call_frame is no longer `frames.push(CallFrame {{ closure, ip: first instruction, slot_base: stack.len() - arity }})`: {:?}", self.method_body_of("ObjFiber", "push_call_frame")));
                }
                let c = self.expr(args[0], Some(&LT::ClosureRec))?;
                if c.ty != LT::ClosureRec {
                    return self.un("push_call_frame of something that is not a closure handed to the call mechanism");
                }
                let mut pre = c.pre;
                let v = self.fresh("t");
                pre.push(Pre::Bind(v.clone(), format!("(Rs.Vm.pushCallFrame vm_ {})", c.term)));
                return Ok((pre, format!("let vm_ := {};\n  ", v)));
            }
            if name == "pop" && vm_place(&rp).is_none() {
                return Ok((vec![], "let vm_ := Rs.Vm.popFrame vm_;\n  ".to_string()));
            }
            if name == "truncate" && vm_place(&rp).is_none() {
                let n = self.expr(args[0], Some(&LT::I("usize")))?;
                return Ok((n.pre, format!("let vm_ := Rs.Vm.truncateFrames vm_ {};\n  ", n.term)));
            }
            if let Some((term, ty)) = vm_place(&rp) {
                match (name.as_str(), &ty) {
                    ("push", LT::List(t)) => {
                        let x = self.expr(args[0], Some(&**t))?;
                        if x.ty != **t {
                            return self.un(format!("push onto `{}`: modelled types differ", rp));
                        }
                        let field = term.trim_start_matches("vm_.");
                        return Ok((x.pre, format!("let vm_ := {{ vm_ with {} := {} ++ [{}] }};\n  ", field, term, x.term)));
                    }
                    ("truncate", LT::List(_)) if term == "vm_.stack" => {
                        let n = self.expr(args[0], Some(&LT::I("usize")))?;
                        let mut pre = n.pre;
                        let v = self.fresh("t");
                        pre.push(Pre::Bind(v.clone(), format!("(Rs.Vm.truncateStack vm_ {})", n.term)));
                        return Ok((pre, format!("let vm_ := {};\n  ", v)));
                    }
                    _ => {}
                }
            }
            return self.un(format!("statement `{}` on the interpreter state not modelled", truncate_chars(&compact(&toks(mc)), 80)));
        }
        match (mc.method.to_string().as_str(), args.len()) {
            ("load_frame", 0) => {
                let v = self.fresh("t");
                Ok((vec![Pre::Bind(v.clone(), "(Rs.Vm.loadFrame vm_)".into())], format!("let vm_ := {};\n  ", v)))
            }
            ("push", 1) => {
                let x = self.expr(args[0], Some(&LT::Value))?;
                if x.ty != LT::Value {
                    return self.un("push of something that is not a modelled Value");
                }
                Ok((x.pre, format!("let vm_ := Rs.Vm.push vm_ {};\n  ", x.term)))
            }
            ("poke", 2) => {
                let d = self.expr(args[0], Some(&LT::I("usize")))?;
                let x = self.expr(args[1], Some(&LT::Value))?;
                let mut pre = d.pre;
                pre.extend(x.pre);
                let v = self.fresh("t");
                pre.push(Pre::Bind(v.clone(), format!("(Rs.Vm.poke vm_ {} {})", d.term, x.term)));
                Ok((pre, format!("let vm_ := {};\n  ", v)))
            }
            ("discard", 1) => {
                let n = self.expr(args[0], Some(&LT::I("usize")))?;
                let mut pre = n.pre;
                let v = self.fresh("t");
                pre.push(Pre::Bind(v.clone(), format!("(Rs.Vm.discard vm_ {})", n.term)));
                Ok((pre, format!("let vm_ := {};\n  ", v)))
            }
            _ => self.un("internal: not a statement intrinsic"),
        }
    }

    /// A pattern over the modelled types (Value variants, Option, tuples, binders); binders are declared in the current scope.
    fn pattern(&mut self, p: &Pat, ty: &LT) -> R<String> {
        match (p, ty) {
            (Pat::Wild(_), _) => Ok("_".into()),
            (Pat::Reference(r), _) => self.pattern(&r.pat, ty),
            (Pat::Paren(r), _) => self.pattern(&r.pat, ty),
            (Pat::Ident(i), LT::Opt(_)) if i.ident == "None" => Ok("none".into()),
            (Pat::Ident(i), _) if i.subpat.is_none() => Ok(self.declare(&i.ident.to_string(), ty.clone())),
            (Pat::TupleStruct(ts), LT::Opt(t)) if toks(&ts.path) == "Some" && ts.elems.len() == 1 => {
                Ok(format!("(some {})", self.pattern(&ts.elems[0], t)?))
            }
            (Pat::TupleStruct(ts), LT::Res(t, _)) if toks(&ts.path) == "Ok" && ts.elems.len() == 1 => {
                Ok(format!("(Except.ok {})", self.pattern(&ts.elems[0], t)?))
            }
            (Pat::TupleStruct(ts), LT::Res(_, e)) if toks(&ts.path) == "Err" && ts.elems.len() == 1 => {
                Ok(format!("(Except.error {})", self.pattern(&ts.elems[0], e)?))
            }
            (Pat::TupleStruct(ts), LT::Value) if ts.elems.len() == 1 => {
                let name = toks(&ts.path).replace(' ', "");
                match name.as_str() {
                    "Value::Number" => Ok(format!("(Rs.Value.Number {})", self.pattern(&ts.elems[0], &LT::F64)?)),
                    "Value::Boolean" => Ok(format!("(Rs.Value.Boolean {})", self.pattern(&ts.elems[0], &LT::Bool)?)),
                    other => self.un(format!("pattern `{}`: this variant of Value is not modelled", other)),
                }
            }
            (Pat::Path(pp), LT::Value) if toks(&pp.path).replace(' ', "") == "Value::None" => Ok("Rs.Value.None".into()),
            (Pat::Tuple(tp), LT::Tup(ts)) if tp.elems.len() == ts.len() => {
                let mut parts = Vec::new();
                for (q, t) in tp.elems.iter().zip(ts.iter()) {
                    parts.push(self.pattern(q, t)?);
                }
                Ok(format!("({})", parts.join(", ")))
            }
            (q, t) => self.un(format!("pattern `{}` against {:?} not modelled", toks(q), t)),
        }
    }

    fn stmt_match(&mut self, m: &syn::ExprMatch, rest: &[Stmt], k: &Kont) -> R<String> {
        let scrut = self.expr(&m.expr, None)?;
        let snapshot = self.snapshot();
        // (0) match over Value / tuples of modelled values, with the general pattern compiler
        let general = match &scrut.ty {
            LT::Value | LT::Tup(_) | LT::Res(..) => true,
            LT::Opt(t) => matches!(**t, LT::Tup(_)),
            _ => false,
        };
        if general && m.arms.iter().all(|a| a.guard.is_none()) {
            let mut arms = String::new();
            for a in &m.arms {
                self.restore(&snapshot);
                self.scopes.push(BTreeMap::new());
                let sty = scrut.ty.clone();
                let pat = self.pattern(&a.pat, &sty)?;
                let mut v = match &*a.body {
                    Expr::Block(b) => b.block.stmts.clone(),
                    // `Err(e) => self.report(e),` where the method answers nothing: a statement
                    Expr::MethodCall(mc)
                        if self.path_of(&mc.receiver).as_deref() == Some("self")
                            && self.self_ty.clone().map(|o| self.method_exists_on(&o, &mc.method.to_string()) && self.method_sig_on(&o, &mc.method.to_string()).is_none()).unwrap_or(false) =>
                    {
                        vec![Stmt::Expr((*a.body).clone(), Some(Default::default()))]
                    }
                    other => vec![Stmt::Expr(other.clone(), None)],
                };
                if !rest.is_empty() {
                    v = seal(v);
                    v.extend_from_slice(rest);
                }
                let body = self.block(&v, k)?;
                self.scopes.pop();
                arms.push_str(&format!("\n  | {} =>\n  {}", pat, body));
            }
            self.restore(&snapshot);
            return Ok(wrap_pre(&scrut.pre, format!("(match {} with{})", scrut.term, arms)));
        }
        // (1) `match n { v if v == X as usize => A, …, _ => panic!() }`  -> if-chain
        let all_guarded = m.arms.iter().all(|a| matches!(&a.pat, Pat::Ident(_)) && a.guard.is_some() || matches!(&a.pat, Pat::Wild(_)));
        if all_guarded {
            let mut out = String::new();
            let mut closes = 0;
            for a in &m.arms {
                self.restore(&snapshot);
                self.scopes.push(BTreeMap::new());
                let body_stmts = {
                    let mut v = vec![Stmt::Expr((*a.body).clone(), None)];
                    if !rest.is_empty() {
                        v = seal(v);
                        v.extend_from_slice(rest);
                    }
                    v
                };
                if let Pat::Ident(pi) = &a.pat {
                    let lean = self.declare(&pi.ident.to_string(), scrut.ty.clone());
                    let g = self.cond(&a.guard.as_ref().unwrap().1)?;
                    if !g.pre.is_empty() {
                        return self.un("match guard that can panic");
                    }
                    let body = self.block(&body_stmts, k)?;
                    out.push_str(&format!("(let {} := {};\n  if {} then\n  {}\n  else\n  ", lean, scrut.term, g.term, body));
                    closes += 1;
                } else {
                    let body = self.block(&body_stmts, k)?;
                    out.push_str(&body);
                }
                self.scopes.pop();
            }
            for _ in 0..closes {
                out.push(')');
            }
            self.restore(&snapshot);
            return Ok(wrap_pre(&scrut.pre, out));
        }
        // (2) `match opt { Some(x) => …, None => … }`
        if let LT::Opt(inner) = scrut.ty.clone() {
            let mut arms = String::new();
            for a in &m.arms {
                self.restore(&snapshot);
                self.scopes.push(BTreeMap::new());
                let pat = match &a.pat {
                    Pat::TupleStruct(ts) if toks(&ts.path) == "Some" && ts.elems.len() == 1 => {
                        let (n, _) = self.simple_pat(&ts.elems[0])?;
                        format!("some {}", self.declare(&n, (*inner).clone()))
                    }
                    Pat::Ident(i) if i.ident == "None" => "none".to_string(),
                    Pat::Wild(_) => "_".to_string(),
                    other => return self.un(format!("match pattern `{}` on an Option not modelled", toks(other))),
                };
                let mut v = vec![Stmt::Expr((*a.body).clone(), None)];
                if !rest.is_empty() {
                    v = seal(v);
                    v.extend_from_slice(rest);
                }
                let body = self.block(&v, k)?;
                self.scopes.pop();
                arms.push_str(&format!("\n  | {} =>\n  {}", pat, body));
            }
            self.restore(&snapshot);
            return Ok(wrap_pre(&scrut.pre, format!("(match {} with{})", scrut.term, arms)));
        }
        // (3) match on a unit enum
        if let LT::Enum(en) = scrut.ty.clone() {
            let mut arms = String::new();
            for a in &m.arms {
                self.restore(&snapshot);
                let pat = match &a.pat {
                    Pat::Path(p) => format!("Fns.{}.{}", en, lean_ident(&p.path.segments.last().unwrap().ident.to_string())),
                    Pat::Wild(_) => "_".to_string(),
                    other => return self.un(format!("match pattern `{}` on enum {} not modelled", toks(other), en)),
                };
                let unit_call = matches!(&*a.body, Expr::MethodCall(mc)
                    if self.path_of(&mc.receiver).as_deref() == Some("self")
                        && self.self_ty.clone().map(|o| self.method_exists_on(&o, &mc.method.to_string()) && self.method_sig_on(&o, &mc.method.to_string()).is_none()).unwrap_or(false));
                let mut v = match &*a.body {
                    Expr::Block(b) => b.block.stmts.clone(),
                    _ if unit_call => vec![Stmt::Expr((*a.body).clone(), Some(Default::default()))],
                    other => vec![Stmt::Expr(other.clone(), None)],
                };
                if !rest.is_empty() {
                    v = seal(v);
                    v.extend_from_slice(rest);
                }
                self.scopes.push(BTreeMap::new());
                let body = self.block(&v, k)?;
                self.scopes.pop();
                arms.push_str(&format!("\n  | {} =>\n  {}", pat, body));
            }
            self.restore(&snapshot);
            return Ok(wrap_pre(&scrut.pre, format!("(match {} with{})", scrut.term, arms)));
        }
        self.un(format!("`match` on {:?} not modelled", scrut.ty))
    }

    fn stmt_for(&mut self, f: &syn::ExprForLoop, rest: &[Stmt], k: &Kont) -> R<String> {
        // the loop variable: a name, or a tuple of names (`for (i, x) in xs.iter().enumerate()`)
        let names: Vec<String> = match &*f.pat {
            Pat::Tuple(tp) => {
                let mut v = Vec::new();
                for q in tp.elems.iter() {
                    v.push(self.simple_pat(q)?.0);
                }
                v
            }
            other => vec![self.simple_pat(other)?.0],
        };
        // `for x in LIST.iter_mut()`: every pass may rewrite its element (`Rs.forInMut`)
        let mut_base: Option<Expr> = match &*f.expr {
            Expr::MethodCall(m) if m.method == "iter_mut" && m.args.is_empty() => Some((*m.receiver).clone()),
            _ => None,
        };
        let xs = match &mut_base {
            Some(b) => {
                let lv = self.list_lvalue(b)?;
                pure(lv.lean, lv.ty)
            }
            None => self.expr(&f.expr, None)?,
        };
        let elem = match &xs.ty {
            LT::List(t) => (**t).clone(),
            t => return self.un(format!("`for` over {:?} not modelled", t)),
        };
        let scan = scan_block(&f.body);
        let mut vars = self.assigned_outer(&scan, true)?;
        if let Some(b) = &mut_base {
            if scan.has_exit || scan.has_break || names.len() != 1 || vars.is_empty() {
                return self.un("`for x in LIST.iter_mut()` with an exit, a `break`, a tuple pattern or no carried state not modelled");
            }
            if !matches!(elem, LT::Opt(_)) {
                return self.un("`for x in LIST.iter_mut()` over elements that are not options not modelled");
            }
            // the list itself must not be touched by the body other than through the loop variable
            let btxt = compact(&toks(b));
            if compact(&toks(&f.body)).contains(&btxt) {
                return self.un("`for x in LIST.iter_mut()` whose body names LIST");
            }
            let init = self.join_names(&vars)?;
            let snapshot = self.snapshot();
            self.scopes.push(BTreeMap::new());
            let lx = self.declare(&names[0], elem.clone());
            let sv = self.fresh("s");
            let lets = self.rebind_joined(&vars, &sv)?;
            let mut vars_mut = vec![(names[0].clone(), false)];
            vars_mut.extend(vars.iter().cloned());
            let kb = Kont::Join(vars_mut);
            self.cont_konts.push(kb.clone());
            let body = self.block(&seal(f.body.stmts.clone()), &kb);
            self.cont_konts.pop();
            let body = body?;
            self.scopes.pop();
            self.restore(&snapshot);
            let lv = self.list_lvalue(b)?;
            let jm = self.fresh("jm");
            let jv = self.fresh("j");
            let lets_after = self.rebind_joined(&vars, &jv)?;
            let after = self.block(rest, k)?;
            return Ok(format!(
                "(Rs.M.bind (Rs.forInMut {} {} fun {} {} =>\n  {}{}) fun {} =>\n  let {} := {}.1;\n  let {} := {}.2;\n  {}{})",
                xs.term,
                Self::tuple_text(&init),
                lx,
                sv,
                lets,
                body,
                jm,
                lv.lean,
                jm,
                jv,
                jm,
                lets_after,
                after
            ));
        }
        // a `break` is a flag carried with the state: once it is set the remaining passes do nothing
        let brk = if scan.has_break {
            let b = self.fresh("brk");
            self.declare(&b, LT::Bool);
            vars.push((b.clone(), false));
            Some(b)
        } else {
            None
        };
        // make sure every carried place exists before the loop
        let init = self.join_names(&vars)?;
        let snapshot = self.snapshot();
        self.scopes.push(BTreeMap::new());
        let (lx, unpack) = if names.len() == 1 {
            (self.declare(&names[0], elem), String::new())
        } else {
            let tys = match &elem {
                LT::Tup(ts) if ts.len() == names.len() => ts.clone(),
                t => return self.un(format!("tuple pattern over elements of type {:?}", t)),
            };
            let ev = self.fresh("e");
            let mut unpack = String::new();
            let n = names.len();
            for (k2, (nm, ty)) in names.iter().zip(tys.iter()).enumerate() {
                let mut term = ev.clone();
                for _ in 0..k2 {
                    term = format!("{}.2", term);
                }
                if k2 + 1 < n {
                    term = format!("{}.1", term);
                }
                let l = self.declare(nm, ty.clone());
                unpack.push_str(&format!("let {} := {};\n  ", l, term));
            }
            (ev, unpack)
        };
        let sv = self.fresh("s");
        let lets = self.rebind_joined(&vars, &sv)?;
        let brk_prefix = match &brk {
            Some(b) => format!("let {} := false;\n  ", lean_ident(b)),
            None => String::new(),
        };
        if scan.has_exit {
            // a body that can leave the function: every pass answers `inl next-state` or `inr <the function's answer>`
            self.loop_depth += 1;
            let kb = Kont::LoopCont(vars.clone());
            if let Some(b) = &brk {
                self.for_konts.push((kb.clone(), b.clone()));
            }
            self.cont_konts.push(kb.clone());
            let body = self.block(&seal(f.body.stmts.clone()), &kb);
            self.cont_konts.pop();
            let skip = self.finish(&kb, None);
            if brk.is_some() {
                self.for_konts.pop();
            }
            self.loop_depth -= 1;
            let body = body?;
            let body = match &brk {
                Some(b) => format!("(if {} then {} else\n  {})", lean_ident(b), skip?, body),
                None => body,
            };
            self.scopes.pop();
            self.restore(&snapshot);
            let jv = self.fresh("j");
            let lets_after = self.rebind_joined(&vars, &jv)?;
            let after = self.block(rest, k)?;
            return Ok(wrap_pre(
                &xs.pre,
                format!(
                    "({}Rs.M.bind (Rs.forInBrk {} {} fun {} {} =>\n  {}{}{}) fun r_ =>\n  match r_ with\n  | Sum.inr x_ => Rs.M.ok {}\n  | Sum.inl {} =>\n  {}{})",
                    brk_prefix,
                    xs.term,
                    Self::tuple_text(&init),
                    lx,
                    sv,
                    unpack,
                    lets,
                    body,
                    if self.loop_depth > 0 { "(Sum.inr x_)" } else { "x_" },
                    jv,
                    lets_after,
                    after
                ),
            ));
        }
        let kb = Kont::Join(vars.clone());
        if let Some(b) = &brk {
            self.for_konts.push((kb.clone(), b.clone()));
        }
        self.cont_konts.push(kb.clone());
        let body = self.block(&seal(f.body.stmts.clone()), &kb);
        self.cont_konts.pop();
        let skip = self.finish(&kb, None);
        if brk.is_some() {
            self.for_konts.pop();
        }
        let body = body?;
        let body = match &brk {
            Some(b) => format!("(if {} then {} else\n  {})", lean_ident(b), skip?, body),
            None => body,
        };
        self.scopes.pop();
        self.restore(&snapshot);
        let jv = self.fresh("j");
        let lets_after = self.rebind_joined(&vars, &jv)?;
        let after = self.block(rest, k)?;
        Ok(wrap_pre(
            &xs.pre,
            format!(
                "({}Rs.M.bind (Rs.forIn {} {} fun {} {} =>\n  {}{}{}) fun {} =>\n  {}{})",
                brk_prefix,
                xs.term,
                Self::tuple_text(&init),
                lx,
                sv,
                unpack,
                lets,
                body,
                jv,
                lets_after,
                after
            ),
        ))
    }

    fn stmt_loop(&mut self, l: &syn::ExprLoop, rest: &[Stmt], _k: &Kont) -> R<String> {
        // `loop { … return …; … }` with no `break`: leaves only by returning, so what follows it is unreachable
        struct B(bool);
        impl<'ast> syn::visit::Visit<'ast> for B {
            fn visit_expr_break(&mut self, _: &'ast syn::ExprBreak) {
                self.0 = true;
            }
            fn visit_expr_continue(&mut self, _: &'ast syn::ExprContinue) {
                self.0 = true;
            }
        }
        let mut b = B(false);
        syn::visit::Visit::visit_block(&mut b, &l.body);
        if b.0 {
            return self.un("`loop` with break/continue not modelled");
        }
        if !rest.is_empty() {
            return self.un("code after a `loop` that only returns");
        }
        let scan = scan_block(&l.body);
        let vars = self.assigned_outer(&scan, true)?;
        let init = self.join_names(&vars)?;
        self.loop_fuel = true;
        let snapshot = self.snapshot();
        let sv = self.fresh("s");
        let lets = self.rebind_joined(&vars, &sv)?;
        // inside the body a `return v` must answer `inr <exit tuple>`: done by post-processing the exit text
        self.scopes.push(BTreeMap::new());
        self.loop_depth += 1;
        let body = self.block(&seal(l.body.stmts.clone()), &Kont::LoopCont(vars.clone()));
        self.loop_depth -= 1;
        let body = body?;
        self.scopes.pop();
        self.restore(&snapshot);
        Ok(format!(
            "(Rs.M.bind (Rs.loopN fuel_ {} fun {} =>\n  {}{}) fun r_ =>\n  match r_ with\n  | some x_ => Rs.M.ok x_\n  | none => Rs.M.panic)",
            Self::tuple_text(&init),
            sv,
            lets,
            body
        ))
    }
}

/// Give a statement list no tail value (its value, if any, is discarded): a trailing expression gets a semicolon.
fn seal(mut stmts: Vec<Stmt>) -> Vec<Stmt> {
    if let Some(Stmt::Expr(e, semi @ None)) = stmts.last_mut() {
        match e {
            // expressions that are statements by themselves keep their form
            Expr::If(_) | Expr::Match(_) | Expr::ForLoop(_) | Expr::Loop(_) | Expr::Block(_) | Expr::Return(_) | Expr::Assign(_) => {
                *semi = Some(Default::default())
            }
            _ => *semi = Some(Default::default()),
        }
    }
    stmts
}

fn compound_base(op: &BinOp) -> Option<()> {
    match op {
        BinOp::AddAssign(_) | BinOp::SubAssign(_) | BinOp::MulAssign(_) | BinOp::BitXorAssign(_) | BinOp::BitAndAssign(_) | BinOp::BitOrAssign(_) => Some(()),
        _ => None,
    }
}
