//! Function-body translator: a small, explicit subset of Rust (integer / bit / f64-bit arithmetic, `if`, `match` on simple
//! patterns, early `return`, `?`, `for` over a slice, `loop` with returns, reads and writes of `self` places, opaque calls
//! recorded as effects) is turned into Lean definitions over the meanings fixed in `Yarel/Model/RustSem.lean`.
//! Anything outside the subset is reported as XLATE-UNSUPPORTED with the construct; nothing is guessed.

use crate::common::*;
use crate::ty::*;

use std::collections::{BTreeMap, BTreeSet};
use syn::{BinOp, Expr, Pat, Stmt, UnOp};

include!("fnbody_types.rs");
include!("fnbody_expr.rs");
include!("fnbody_stmt.rs");
include!("fnbody_gc.rs");
include!("fnbody_top.rs");
