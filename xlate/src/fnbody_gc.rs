// The three collector passes of memory.rs (`Heap::mark_roots`, `Heap::trace_references`, `Heap::sweep`): `self.objects` is the state
// `vm_ : Rs.GcHeap` (Yarel/Model/RustSemGc.lean), a box handed to a closure is its index, the iterator chains over `self.objects` are
// the lazy combinators of that file.  `GcBox::{unmark, mark, blacken}` are intrinsics whose bodies are compared with the text the
// meaning assumes.

/// What is left of a method body when the statements guarded by `#[cfg(feature = "verif_hooks")]` and the `if cfg!(feature = "debug_trace_gc")`
/// tracing blocks are taken out (tokens without blanks).
fn body_without_instrumentation(block: &syn::Block) -> String {
    let mut out = String::from("{");
    for st in &block.stmts {
        let attrs: &[syn::Attribute] = match st {
            Stmt::Local(l) => &l.attrs,
            Stmt::Expr(e, _) => match e {
                Expr::If(i) => &i.attrs,
                Expr::MethodCall(m) => &m.attrs,
                Expr::Call(c) => &c.attrs,
                Expr::Macro(m) => &m.attrs,
                Expr::Block(b) => &b.attrs,
                _ => &[],
            },
            Stmt::Macro(m) => &m.attrs,
            _ => &[],
        };
        let hooked = attrs.iter().any(|a| {
            let t = toks(a).replace(' ', "");
            t.contains("cfg(feature=\"verif_hooks\")")
        });
        if hooked {
            continue;
        }
        if let Stmt::Expr(Expr::If(i), _) = st {
            let c = toks(&*i.cond).replace(' ', "");
            if c == "cfg!(feature=\"debug_trace_gc\")" && i.else_branch.is_none() {
                continue;
            }
        }
        out.push_str(&toks(st).replace(' ', ""));
    }
    out.push('}');
    out
}

impl<'a> Cx<'a> {
    fn gcbox_body(&self, method: &str) -> Option<String> {
        for im in &self.db.impls {
            if im.self_ty.head() == Some("GcBox") {
                for f in &im.fns {
                    if f.sig.ident == method {
                        return Some(body_without_instrumentation(&f.block));
                    }
                }
            }
        }
        None
    }

    /// The methods of a box the passes call keep the bodies `Rs.GcHeap.{unmark, call}` stand for.
    fn gc_check_box_method(&self, method: &str) -> R<()> {
        let want = match method {
            "unmark" => "{self.colour.set(Colour::White);}",
            "mark" => "{ifself.colour.replace(Colour::Grey)==Colour::Grey{return;}self.data.mark();}",
            "blacken" => "{ifself.colour.replace(Colour::Black)==Colour::Black{return;}self.data.blacken();}",
            _ => return self.un(format!("GcBox::{} is not a method the collector passes are modelled to call", method)),
        };
        match self.gcbox_body(method) {
            Some(b) if b == want => Ok(()),
            Some(b) => self.un(format!("GcBox::{} is no longer `{}` (instrumentation aside): `{}`", method, want, truncate_chars(&b, 200))),
            None => self.un(format!("GcBox::{} not found", method)),
        }
    }

    /// `self.objects.a(..).b(..)…` -> the calls after `self.objects`, outermost last
    fn gc_chain<'e>(&self, e: &'e Expr) -> Option<Vec<(&'e syn::ExprMethodCall, String)>> {
        let mut calls = Vec::new();
        let mut cur = e;
        loop {
            match cur {
                Expr::MethodCall(m) => {
                    calls.push((m, m.method.to_string()));
                    cur = &m.receiver;
                }
                Expr::Field(f) => {
                    if toks(&*f.base) == "self" && matches!(&f.member, syn::Member::Named(n) if n == "objects") {
                        calls.reverse();
                        return if calls.is_empty() { None } else { Some(calls) };
                    }
                    return None;
                }
                Expr::Paren(p) => cur = &p.expr,
                _ => return None,
            }
        }
    }

    fn gc_closure_of<'e>(&self, m: &'e syn::ExprMethodCall) -> R<(&'e syn::ExprClosure, String)> {
        if m.args.len() != 1 {
            return self.un(format!("`{}` over the heap's boxes with {} arguments", m.method, m.args.len()));
        }
        match &m.args[0] {
            Expr::Closure(c) if c.inputs.len() == 1 => {
                let n = match &c.inputs[0] {
                    Pat::Ident(i) => i.ident.to_string(),
                    Pat::Type(t) => match &*t.pat {
                        Pat::Ident(i) => i.ident.to_string(),
                        other => return self.un(format!("closure parameter `{}`", toks(other))),
                    },
                    other => return self.un(format!("closure parameter `{}`", toks(other))),
                };
                Ok((c, n))
            }
            other => self.un(format!("argument `{}` of `{}` over the heap's boxes is not a one-parameter closure", truncate_chars(&toks(other), 60), m.method)),
        }
    }

    /// A closure that only reads: `fun obj => <term>` (a block body may hold ignored tracing and then one tail expression).
    fn gc_pure_closure(&mut self, m: &syn::ExprMethodCall, want: &LT, state_param: bool) -> R<String> {
        let (c, name) = self.gc_closure_of(m)?;
        let snapshot = self.snapshot();
        self.scopes.push(BTreeMap::new());
        let lean = self.declare(&name, LT::GcBox);
        let body: Expr = match &*c.body {
            Expr::Block(b) => {
                let mut rest: Vec<&Stmt> = Vec::new();
                for st in &b.block.stmts {
                    if let Stmt::Expr(Expr::If(i), _) = st {
                        if self.ignored_cfg_block(&i.cond) && i.else_branch.is_none() {
                            continue;
                        }
                    }
                    rest.push(st);
                }
                match rest.as_slice() {
                    [Stmt::Expr(e, None)] => e.clone(),
                    _ => return self.un(format!("closure body `{}` is not one expression", truncate_chars(&toks(&*c.body), 80))),
                }
            }
            other => other.clone(),
        };
        let tx = if *want == LT::Bool { self.cond(&body)? } else { self.expr(&body, Some(want))? };
        self.scopes.pop();
        self.restore(&snapshot);
        if !tx.pre.is_empty() {
            return self.un(format!("closure `{}` over the heap's boxes is not a plain expression", truncate_chars(&toks(&*c.body), 80)));
        }
        if tx.ty != *want {
            return self.un(format!("closure `{}`: modelled type {:?}, expected {:?}", truncate_chars(&toks(&*c.body), 80), tx.ty, want));
        }
        Ok(if state_param { format!("(fun vm_ {} => {})", lean, tx.term) } else { format!("(fun {} => {})", lean, tx.term) })
    }

    /// A closure that acts on the boxes: `fun obj vm_ => … Rs.M.ok ((), vm_)`.
    fn gc_effect_closure(&mut self, m: &syn::ExprMethodCall) -> R<String> {
        let (c, name) = self.gc_closure_of(m)?;
        let snapshot = self.snapshot();
        self.scopes.push(BTreeMap::new());
        let lean = self.declare(&name, LT::GcBox);
        let stmts: Vec<Stmt> = match &*c.body {
            Expr::Block(b) => b.block.stmts.clone(),
            other => vec![Stmt::Expr(other.clone(), Some(Default::default()))],
        };
        let saved_ret = std::mem::replace(&mut self.ret_ty, LT::Unit);
        let saved_depth = std::mem::replace(&mut self.loop_depth, 0);
        let text = self.block(&seal(stmts), &Kont::Return);
        self.ret_ty = saved_ret;
        self.loop_depth = saved_depth;
        self.scopes.pop();
        self.restore(&snapshot);
        Ok(format!("(fun {} vm_ =>\n  {})", lean, text?))
    }

    /// An iterator chain over `self.objects` in expression position.
    fn gc_chain_expr(&mut self, e: &Expr) -> R<Option<Tx>> {
        let chain = match self.gc_chain(e) {
            Some(c) => c,
            None => return Ok(None),
        };
        let names: Vec<&str> = chain.iter().map(|(_, n)| n.as_str()).collect();
        match names.as_slice() {
            ["iter", "filter", "map", "sum"] => {
                let p = self.gc_pure_closure(chain[1].0, &LT::Bool, false)?;
                let f = self.gc_pure_closure(chain[2].0, &LT::I("usize"), false)?;
                Ok(Some(pure(format!("(Rs.GcHeap.sumOver vm_ {} {})", p, f), LT::I("usize"))))
            }
            ["iter", "filter", "count"] => {
                let p = self.gc_pure_closure(chain[1].0, &LT::Bool, false)?;
                Ok(Some(pure(format!("(Rs.GcHeap.countOver vm_ {})", p), LT::I("usize"))))
            }
            ["iter_mut", "filter", "map", "count"] => {
                let p = self.gc_pure_closure(chain[1].0, &LT::Bool, true)?;
                let f = self.gc_effect_closure(chain[2].0)?;
                let v = self.fresh("t");
                Ok(Some(Tx { pre: vec![Pre::BindVm(v.clone(), format!("(Rs.GcHeap.filterMapCount vm_ {} {})", p, f))], term: v, ty: LT::I("usize") }))
            }
            other => self.un(format!("iterator chain `self.objects.{}` not modelled", other.join("()."))),
        }
    }

    /// `self.objects.iter_mut().for_each(..);` / `self.objects.retain(..);` / `obj.unmark();` / `obj.mark();` / `obj.blacken();`
    fn gc_statement(&mut self, mc: &syn::ExprMethodCall) -> R<Option<(Vec<Pre>, String)>> {
        let whole = Expr::MethodCall(mc.clone());
        if let Some(chain) = self.gc_chain(&whole) {
            let names: Vec<&str> = chain.iter().map(|(_, n)| n.as_str()).collect();
            return match names.as_slice() {
                ["iter_mut", "for_each"] => {
                    let f = self.gc_effect_closure(chain[1].0)?;
                    let v = self.fresh("u");
                    Ok(Some((vec![Pre::BindVm(v, format!("(Rs.GcHeap.forEach vm_ {})", f))], String::new())))
                }
                ["retain"] => {
                    let p = self.gc_pure_closure(chain[0].0, &LT::Bool, false)?;
                    Ok(Some((vec![], format!("let vm_ := Rs.GcHeap.retain vm_ {};\n  ", p))))
                }
                other => self.un(format!("statement `self.objects.{}(..)` not modelled", other.join("()."))),
            };
        }
        // a method of the box a closure stands on
        if let Expr::Path(p) = &*mc.receiver {
            let segs = path_segments(&p.path);
            if segs.len() == 1 {
                if let Some(v) = self.lookup(&segs[0]) {
                    if v.ty == LT::GcBox && mc.args.is_empty() {
                        let name = mc.method.to_string();
                        self.gc_check_box_method(&name)?;
                        return match name.as_str() {
                            "unmark" => Ok(Some((vec![], format!("let vm_ := Rs.GcHeap.unmark vm_ {};\n  ", v.lean)))),
                            "mark" | "blacken" => {
                                let u = self.fresh("u");
                                Ok(Some((vec![Pre::BindVm(u, format!("(Rs.GcHeap.call vm_ Gc.TraceOp.{} {})", name, v.lean))], String::new())))
                            }
                            _ => unreachable!(),
                        };
                    }
                }
            }
        }
        Ok(None)
    }

    /// `obj.colour.get() == Colour::X`, `obj.num_roots.get()`, `mem::size_of_val(&obj.data)`
    fn gc_box_expr(&mut self, e: &Expr) -> R<Option<Tx>> {
        let boxvar = |cx: &Self, b: &Expr| -> Option<String> {
            if let Expr::Path(p) = b {
                let segs = path_segments(&p.path);
                if segs.len() == 1 {
                    if let Some(v) = cx.lookup(&segs[0]) {
                        if v.ty == LT::GcBox {
                            return Some(v.lean);
                        }
                    }
                }
            }
            None
        };
        match e {
            Expr::Binary(b) if matches!(b.op, BinOp::Eq(_)) => {
                if let Expr::MethodCall(g) = &*b.left {
                    if g.method == "get" && g.args.is_empty() {
                        if let Expr::Field(f) = &*g.receiver {
                            if matches!(&f.member, syn::Member::Named(n) if n == "colour") {
                                if let Some(bx) = boxvar(self, &f.base) {
                                    let rhs = toks(&*b.right).replace(' ', "");
                                    let col = match rhs.as_str() {
                                        "Colour::White" => "white",
                                        "Colour::Grey" => "grey",
                                        "Colour::Black" => "black",
                                        other => return self.un(format!("colour `{}`", other)),
                                    };
                                    // the enum has exactly the three colours the model knows
                                    let ok = self
                                        .db
                                        .enums
                                        .get("Colour")
                                        .map(|v| {
                                            let mut names: Vec<&str> = v.iter().flat_map(|e| e.variants.iter().map(|x| x.name.as_str())).collect();
                                            names.sort();
                                            v.len() == 1 && names == ["Black", "Grey", "White"]
                                        })
                                        .unwrap_or(false);
                                    if !ok {
                                        return self.un("enum Colour is no longer White / Grey / Black");
                                    }
                                    return Ok(Some(pure(format!("(Rs.GcHeap.hasColour vm_ {} Gc.Colour.{})", bx, col), LT::Bool)));
                                }
                            }
                        }
                    }
                }
                Ok(None)
            }
            Expr::MethodCall(g) if g.method == "get" && g.args.is_empty() => {
                if let Expr::Field(f) = &*g.receiver {
                    if matches!(&f.member, syn::Member::Named(n) if n == "num_roots") {
                        if let Some(bx) = boxvar(self, &f.base) {
                            return Ok(Some(pure(format!("(Rs.GcHeap.rootsAt vm_ {})", bx), LT::I("usize"))));
                        }
                    }
                }
                Ok(None)
            }
            Expr::Call(c) if toks(&*c.func).replace(' ', "") == "mem::size_of_val" && c.args.len() == 1 => {
                if let Expr::Reference(r) = &c.args[0] {
                    if let Expr::Field(f) = &*r.expr {
                        if matches!(&f.member, syn::Member::Named(n) if n == "data") {
                            if let Some(bx) = boxvar(self, &f.base) {
                                return Ok(Some(pure(format!("(Rs.GcHeap.sizeAt vm_ {})", bx), LT::I("usize"))));
                            }
                        }
                    }
                }
                Ok(None)
            }
            _ => Ok(None),
        }
    }

    /// `while c { body }`: the variables the body assigns (and the state) go round; the bound on the passes is the function's `fuel_`.
    fn stmt_while(&mut self, w: &syn::ExprWhile, rest: &[Stmt], k: &Kont) -> R<String> {
        if !self.gc_mode {
            return self.un(format!("statement `{}` not modelled", truncate_chars(&compact(&toks(w)), 60)));
        }
        let scan = scan_block(&w.body);
        if scan.has_exit || scan.has_break {
            return self.un("`while` with return / break not modelled");
        }
        let vars = self.assigned_outer(&scan, true)?;
        let init = self.join_names(&vars)?;
        self.loop_fuel = true;
        let snapshot = self.snapshot();
        let sv = self.fresh("s");
        let lets = self.rebind_joined(&vars, &sv)?;
        self.scopes.push(BTreeMap::new());
        let c = self.cond(&w.cond)?;
        if !c.pre.is_empty() {
            return self.un("`while` condition that can panic");
        }
        let body = self.block(&seal(w.body.stmts.clone()), &Kont::Join(vars.clone()))?;
        self.scopes.pop();
        self.restore(&snapshot);
        let jv = self.fresh("j");
        let lets_after = self.rebind_joined(&vars, &jv)?;
        let after = self.block(rest, k)?;
        Ok(format!(
            "(Rs.M.bind (Rs.whileN (fun {sv} =>\n  {lets}{cond}) (fun {sv} =>\n  {lets}{body}) fuel_ {init}) fun r_ =>\n  match r_ with\n  | none => Rs.M.panic\n  | some {jv} =>\n  {lets_after}{after})",
            sv = sv,
            lets = lets,
            cond = c.term,
            body = body,
            init = Self::tuple_text(&init),
            jv = jv,
            lets_after = lets_after,
            after = after
        ))
    }
}
