// ---- expressions ---------------------------------------------------------------------------------

fn path_segments(p: &syn::Path) -> Vec<String> {
    p.segments.iter().map(|s| s.ident.to_string()).collect()
}

fn is_cfg_macro(e: &Expr) -> Option<&syn::Macro> {
    if let Expr::Macro(m) = e {
        if path_to_string(&m.mac.path) == "cfg" {
            return Some(&m.mac);
        }
    }
    None
}

impl<'a> Cx<'a> {
    fn lit_int(&self, text: &str, want: Option<&LT>) -> R<Tx> {
        let (digits, suffix) = match text.find(|c: char| c == 'u' || c == 'i') {
            Some(i) if !text.starts_with("0x") || true => (&text[..i], Some(&text[i..])),
            _ => (text, None),
        };
        let digits = digits.replace('_', "");
        let ty = match suffix.and_then(int_ty) {
            Some(t) => t,
            None => match want {
                Some(t @ LT::I(_)) | Some(t @ LT::BV(_)) => t.clone(),
                _ => return self.un(format!("integer literal `{}` whose type is not determined by its context", text)),
            },
        };
        Ok(match &ty {
            LT::BV(w) => pure(format!("({}#{})", digits, w), ty),
            _ => pure(format!("({} : Int)", digits), ty),
        })
    }

    fn error_macro(&mut self, m: &syn::Macro) -> R<Tx> {
        let args = match parse_macro_args(&self.file, &self.item, m)? {
            MacroArgs::Exprs(v) => v,
            _ => return self.un("error! with unexpected argument shape"),
        };
        if args.len() < 2 {
            return self.un("error! with fewer than two arguments");
        }
        let kind = toks(&args[0]);
        let kind = kind.rsplit("::").next().unwrap_or("").trim().to_string();
        let fmt = match &args[1] {
            Expr::Lit(syn::ExprLit { lit: syn::Lit::Str(s), .. }) => s.value(),
            other => return self.un(format!("error! format is not a string literal: {}", toks(other))),
        };
        let rest: Vec<String> = args[2..].iter().map(|a| lean_str(&compact(&toks(a)))).collect();
        Ok(pure(
            format!("(Rs.Err.mk {} {} [{}])", lean_str(&kind), lean_str(&fmt), rest.join(", ")),
            LT::ErrT,
        ))
    }

    fn cfg_input(&mut self, m: &syn::Macro) -> String {
        let text = compact(&m.tokens.to_string());
        if let Some((n, _)) = self.cfg_inputs.iter().find(|(_, t)| *t == text) {
            return n.clone();
        }
        let n = format!("cfg_{}", self.cfg_inputs.len());
        self.cfg_inputs.push((n.clone(), text));
        n
    }

    fn cmp(&mut self, op: &str, l: Tx, r: Tx) -> R<Tx> {
        let mut pre = l.pre;
        pre.extend(r.pre);
        let term = match (&l.ty, op) {
            (LT::F64, "==") => format!("(Rs.f64Eq {} {})", l.term, r.term),
            (LT::F64, "!=") => format!("(Rs.f64Ne {} {})", l.term, r.term),
            (LT::F64, "<") => format!("(Rs.f64Lt {} {})", l.term, r.term),
            (LT::F64, ">") => format!("(Rs.f64Lt {} {})", r.term, l.term),
            (LT::F64, _) => return self.un(format!("f64 comparison `{}` not modelled", op)),
            (LT::Value, "==") => format!("(Rs.Value.eq {} {})", l.term, r.term),
            (LT::Value, "!=") => format!("(!Rs.Value.eq {} {})", l.term, r.term),
            (LT::I(_), "==") | (LT::Bool, "==") | (LT::Enum(_), "==") | (LT::Str, "==") | (LT::BV(_), "==") => {
                format!("(decide ({} = {}))", l.term, r.term)
            }
            (LT::I(_), "!=") | (LT::Bool, "!=") | (LT::Enum(_), "!=") | (LT::Str, "!=") | (LT::BV(_), "!=") => {
                format!("(decide ({} ≠ {}))", l.term, r.term)
            }
            (LT::I(_), o) => format!("(decide ({} {} {}))", l.term, lean_cmp(o), r.term),
            (LT::BV(_), o) => format!("(decide ({}.toNat {} {}.toNat))", l.term, lean_cmp(o), r.term),
            (t, o) => return self.un(format!("comparison `{}` on {:?} not modelled", o, t)),
        };
        Ok(Tx { pre, term, ty: LT::Bool })
    }

    fn arith(&mut self, op: &BinOp, l: Tx, r: Tx) -> R<Tx> {
        let mut pre = l.pre;
        pre.extend(r.pre);
        let opname = match op {
            BinOp::Add(_) | BinOp::AddAssign(_) => "add",
            BinOp::Sub(_) | BinOp::SubAssign(_) => "sub",
            BinOp::Mul(_) | BinOp::MulAssign(_) => "mul",
            BinOp::BitXor(_) | BinOp::BitXorAssign(_) => "xor",
            BinOp::BitAnd(_) | BinOp::BitAndAssign(_) => "and",
            BinOp::BitOr(_) | BinOp::BitOrAssign(_) => "or",
            BinOp::Div(_) | BinOp::Rem(_) if l.ty == LT::F64 => "f64",
            other => return self.un(format!("binary operator `{}` not modelled", toks(other))),
        };
        if l.ty == LT::F64 {
            let f = match op {
                BinOp::Add(_) => "Rs.f64Add",
                BinOp::Sub(_) => "Rs.f64Sub",
                BinOp::Mul(_) => "Rs.f64Mul",
                BinOp::Div(_) => "Rs.f64Div",
                BinOp::Rem(_) => "Rs.f64Rem",
                other => return self.un(format!("operator `{}` on f64 not modelled", toks(other))),
            };
            return Ok(Tx { pre, term: format!("({} {} {})", f, l.term, r.term), ty: LT::F64 });
        }
        match (&l.ty, opname) {
            (LT::I("i64"), "and") => return Ok(Tx { pre, term: format!("(Rs.i64And {} {})", l.term, r.term), ty: l.ty.clone() }),
            (LT::I("i64"), "or") => return Ok(Tx { pre, term: format!("(Rs.i64Or {} {})", l.term, r.term), ty: l.ty.clone() }),
            (LT::I("i64"), "xor") => return Ok(Tx { pre, term: format!("(Rs.i64Xor {} {})", l.term, r.term), ty: l.ty.clone() }),
            _ => {}
        }
        match (&l.ty, opname) {
            (LT::I(t), "add") | (LT::I(t), "sub") | (LT::I(t), "mul") => {
                let v = self.fresh("t");
                pre.push(Pre::Bind(v.clone(), format!("(Rs.i{} .{} {} {})", opname, t, l.term, r.term)));
                Ok(Tx { pre, term: v, ty: l.ty.clone() })
            }
            (LT::I("usize"), "and") => {
                // both operands are non-negative and below 2^64: bitwise and of the naturals
                Ok(Tx { pre, term: format!("(Int.ofNat ({}.toNat &&& {}.toNat))", l.term, r.term), ty: l.ty.clone() })
            }
            (LT::BV(_), "add") | (LT::BV(_), "sub") | (LT::BV(_), "mul") => {
                let v = self.fresh("t");
                pre.push(Pre::Bind(v.clone(), format!("(Rs.bv{} {} {})", opname, l.term, r.term)));
                Ok(Tx { pre, term: v, ty: l.ty.clone() })
            }
            (LT::BV(_), "xor") => Ok(Tx { pre, term: format!("({} ^^^ {})", l.term, r.term), ty: l.ty.clone() }),
            (LT::BV(_), "and") => Ok(Tx { pre, term: format!("({} &&& {})", l.term, r.term), ty: l.ty.clone() }),
            (LT::BV(_), "or") => Ok(Tx { pre, term: format!("({} ||| {})", l.term, r.term), ty: l.ty.clone() }),
            (t, o) => self.un(format!("operator `{}` on {:?} not modelled", o, t)),
        }
    }

    fn cast(&mut self, x: Tx, to: &LT) -> R<Tx> {
        let term = match (&x.ty, to) {
            (a, b) if a == b => x.term.clone(),
            (LT::I(_), LT::I(t)) => format!("(Rs.iwrap .{} {})", t, x.term),
            (LT::I(_), LT::BV(w)) => format!("(Rs.bvOfInt {} {})", w, x.term),
            (LT::BV(_), LT::BV(w)) => format!("({}.setWidth {})", x.term, w),
            (LT::BV(_), LT::I(t)) => format!("(Rs.intOfBv .{} {})", t, x.term),
            (LT::F64, LT::I("isize")) | (LT::F64, LT::I("i64")) => format!("(Rs.f64ToIsize {})", x.term),
            (LT::I("isize"), LT::F64) => format!("(Rs.isizeToF64 {})", x.term),
            (LT::I("i64"), LT::F64) => format!("(Rs.i64ToF64 {})", x.term),
            (LT::F64, LT::BV(32)) => format!("(Rs.f64ToU32 {})", x.term),
            (LT::I("usize"), LT::F64) => format!("(Rs.usizeToF64 {})", x.term),
            (LT::F64, LT::I("usize")) => format!("(Rs.f64ToUsize {})", x.term),
            (LT::Enum(n), LT::I(_)) => format!("(Fns.{}.discr {})", n, x.term),
            (LT::Enum(n), LT::BV(w)) => format!("(Rs.bvOfInt {} (Fns.{}.discr {}))", w, n, x.term),
            (a, b) => return self.un(format!("cast from {:?} to {:?} not modelled", a, b)),
        };
        Ok(Tx { pre: x.pre, term, ty: to.clone() })
    }

    fn syn_ty(&mut self, t: &syn::Type) -> LT {
        let ty = convert_type(t);
        self.conv(&ty)
    }

    fn expr(&mut self, e: &Expr, want: Option<&LT>) -> R<Tx> {
        if self.gc_mode {
            if let Some(tx) = self.gc_box_expr(e)? {
                return Ok(tx);
            }
            if matches!(e, Expr::MethodCall(_)) {
                if let Some(tx) = self.gc_chain_expr(e)? {
                    return Ok(tx);
                }
            }
        }
        if self.vm_mode && matches!(e, Expr::Field(_) | Expr::MethodCall(_)) {
            if let Some((term, ty)) = vm_place(&compact(&toks(e))) {
                return Ok(pure(term, ty));
            }
        }
        match e {
            Expr::Paren(p) => self.expr(&p.expr, want),
            Expr::Group(p) => self.expr(&p.expr, want),
            Expr::Reference(r) => self.expr(&r.expr, want),
            Expr::Lit(l) => match &l.lit {
                syn::Lit::Int(i) => self.lit_int(&i.to_string(), want),
                syn::Lit::Bool(b) => Ok(pure(lean_bool(b.value), LT::Bool)),
                syn::Lit::Str(s) => Ok(pure(lean_str(&s.value()), LT::Str)),
                syn::Lit::Float(f) => {
                    let v: f64 = f.base10_parse().map_err(|_| Unsupported {
                        file: self.file.clone(),
                        item: self.item.clone(),
                        why: format!("float literal {}", f),
                    })?;
                    Ok(pure(format!("({} : UInt64)", v.to_bits()), LT::F64))
                }
                other => self.un(format!("literal `{}` not modelled", toks(other))),
            },
            Expr::Path(p) => {
                let segs = path_segments(&p.path);
                if segs.len() == 1 {
                    let n = &segs[0];
                    if let Some(v) = self.lookup(n) {
                        return Ok(pure(v.lean, v.ty));
                    }
                    if let Some((l, i)) = self.elem_aliases.get(n).cloned() {
                        // `let x = &mut LIST[i];`: a read of `x` is a read of the element as it is now
                        let lv = self.list_lvalue(&l)?;
                        let et = match &lv.ty {
                            LT::List(t) => (**t).clone(),
                            _ => unreachable!(),
                        };
                        let ix = self.expr(&i, Some(&LT::I("usize")))?;
                        let mut pre = ix.pre;
                        let v = self.fresh("t");
                        pre.push(Pre::Bind(v.clone(), format!("(Rs.idx {} {})", lv.lean, ix.term)));
                        return Ok(Tx { pre, term: v, ty: et });
                    }
                    if n == "None" {
                        let t = match want {
                            Some(LT::Opt(t)) => (**t).clone(),
                            _ => LT::Opaque,
                        };
                        return Ok(pure("none", LT::Opt(Box::new(t))));
                    }
                    if let Some(p) = self.path_of(e) {
                        let v = self.place(&p)?;
                        return Ok(pure(v.lean, v.ty));
                    }
                }
                let last = segs.last().unwrap().clone();
                if self.stack_mode() && segs.len() == 1 && last == "N" {
                    // the const parameter of `Stack<T, N>`: the length of the boxed array
                    let arr = self.place("self.stack")?;
                    return Ok(pure(format!("(Rs.len {})", arr.lean), LT::I("usize")));
                }
                if let Some(v) = self.const_value(&last) {
                    let ty = match want {
                        Some(t @ LT::I(_)) | Some(t @ LT::BV(_)) => t.clone(),
                        _ => LT::I("usize"),
                    };
                    return Ok(match &ty {
                        LT::BV(w) => pure(format!("({}#{})", v, w), ty),
                        _ => pure(format!("({} : Int)", v), ty),
                    });
                }
                if let Some(bits) = self.f64_const(&last) {
                    return Ok(pure(format!("({} : UInt64)", bits), LT::F64));
                }
                if segs.len() == 2 {
                    if segs[0] == "Value" && segs[1] == "None" {
                        return Ok(pure("Rs.Value.None", LT::Value));
                    }
                    let en = if segs[0] == "Self" { self.self_ty.clone().unwrap_or_default() } else { segs[0].clone() };
                    if let Some(es) = self.db.enums.get(&en) {
                        if es.len() == 1 && es[0].variants.iter().any(|v| v.name == segs[1] && v.fields.is_empty()) {
                            if es[0].variants.iter().all(|v| v.fields.is_empty()) {
                                self.enums_used.insert(en.clone());
                                return Ok(pure(format!("Fns.{}.{}", en, lean_ident(&segs[1])), LT::Enum(en)));
                            }
                        }
                    }
                }
                self.un(format!("path `{}` is neither a local, a place, a known constant nor a unit enum variant", segs.join("::")))
            }
            Expr::Field(f) => {
                // `self.get_rule(kind).precedence`: the entry of the RULES table (emitted as `Fns.rule_precedence`, re-read on every run)
                if let (Expr::MethodCall(gm), syn::Member::Named(fname)) = (&*f.base, &f.member) {
                    if fname == "precedence"
                        && gm.method == "get_rule"
                        && gm.args.len() == 1
                        && self.path_of(&gm.receiver).as_deref() == Some("self")
                        && self.method_body_of("Parser", "get_rule").map(|b| b.replace(' ', "")).as_deref() == Some("{&RULES[kindasusize]}")
                    {
                        let want = LT::Enum("TokenKind".into());
                        let k = self.expr(&gm.args[0], Some(&want))?;
                        if k.ty != want {
                            return self.un("get_rule(..) of something that is not a token kind");
                        }
                        self.enums_used.insert("TokenKind".into());
                        self.enums_used.insert("Precedence".into());
                        self.enums_used.insert("@rule_precedence".into());
                        return Ok(Tx { pre: k.pre, term: format!("(Fns.rule_precedence {})", k.term), ty: LT::Enum("Precedence".into()) });
                    }
                }
                // a closure handed to the call mechanism: `c.function.arity`, `c.function.chunk.code.as_ptr()` (the latter as a method call below)
                if self.vm_mode {
                    if let Expr::Field(inner) = &*f.base {
                        if let (syn::Member::Named(a), syn::Member::Named(b)) = (&inner.member, &f.member) {
                            if a == "function" && b == "arity" {
                                if let Ok(c) = self.expr(&inner.base, None) {
                                    if c.ty == LT::ClosureRec {
                                        return Ok(Tx { pre: c.pre, term: format!("({}).arity", c.term), ty: LT::I("usize") });
                                    }
                                }
                            }
                        }
                    }
                }
                if let Some(p) = self.path_of(e) {
                    let v = self.place(&p)?;
                    return Ok(pure(v.lean, v.ty));
                }
                // tuple projection of a local
                let b = self.expr(&f.base, None)?;
                if let (LT::Handler, syn::Member::Named(fname)) = (&b.ty, &f.member) {
                    let fname = fname.to_string();
                    if matches!(fname.as_str(), "catch_ip" | "finally_ip" | "init_stack_size" | "frame_count") {
                        let ty = if fname.ends_with("_ip") { LT::I("isize") } else { LT::I("usize") };
                        return Ok(Tx { pre: b.pre, term: format!("({}).{}", b.term, fname), ty });
                    }
                }
                if let (LT::FiberId, syn::Member::Named(fname)) = (&b.ty, &f.member) {
                    if self.vm_mode && fname == "caller" {
                        let v = self.fresh("t");
                        let mut pre = b.pre;
                        pre.push(Pre::Bind(v.clone(), format!("(Rs.Vm.fiberRec vm_ {})", b.term)));
                        return Ok(Tx { pre, term: format!("({}).caller", v), ty: LT::Opt(Box::new(LT::FiberId)) });
                    }
                }
                if let (LT::Rec(_, fs), syn::Member::Named(fname)) = (&b.ty, &f.member) {
                    let fname = fname.to_string();
                    if let Some(k) = fs.iter().position(|(n, _)| *n == fname) {
                        let n = fs.len();
                        let mut term = b.term.clone();
                        for _ in 0..k {
                            term = format!("{}.2", term);
                        }
                        if k + 1 < n {
                            term = format!("{}.1", term);
                        }
                        return Ok(Tx { pre: b.pre, term: format!("({})", term), ty: fs[k].1.clone() });
                    }
                }
                if let (LT::Tup(ts), syn::Member::Unnamed(i)) = (&b.ty, &f.member) {
                    let k = i.index as usize;
                    if k < ts.len() {
                        let n = ts.len();
                        let mut term = b.term.clone();
                        // Lean right-nested pairs: (a, b, c) = (a, (b, c))
                        for _ in 0..k {
                            term = format!("{}.2", term);
                        }
                        if k + 1 < n {
                            term = format!("{}.1", term);
                        }
                        return Ok(Tx { pre: b.pre, term: format!("({})", term), ty: ts[k].clone() });
                    }
                }
                self.un(format!("field access `{}` not modelled", toks(e)))
            }
            Expr::Unary(u) => match u.op {
                UnOp::Deref(_) if self.stack_mode() => {
                    // `*p` for a pointer into the boxed array: the cell at that offset (outside the array: undefined behaviour, a panic of
                    // the translation)
                    let p = self.expr(&u.expr, Some(&LT::I("isize")))?;
                    if p.ty != LT::I("isize") {
                        return self.un("dereference of something that is not a pointer into the stack's array");
                    }
                    let arr = self.place("self.stack")?;
                    let mut pre = p.pre;
                    let v = self.fresh("t");
                    pre.push(Pre::Bind(v.clone(), format!("(Rs.idx {} {})", arr.lean, p.term)));
                    Ok(Tx { pre, term: v, ty: LT::Value })
                }
                UnOp::Deref(_) => self.expr(&u.expr, want),
                UnOp::Not(_) => {
                    let x = self.expr(&u.expr, want)?;
                    match &x.ty {
                        LT::Bool => Ok(Tx { pre: x.pre, term: format!("(!{})", x.term), ty: LT::Bool }),
                        LT::BV(_) => Ok(Tx { pre: x.pre, term: format!("(~~~{})", x.term), ty: x.ty.clone() }),
                        LT::I("i64") => Ok(Tx { pre: x.pre, term: format!("(Rs.i64Not {})", x.term), ty: x.ty.clone() }),
                        t => self.un(format!("`!` on {:?} not modelled", t)),
                    }
                }
                UnOp::Neg(_) => {
                    if let Expr::Lit(syn::ExprLit { lit: syn::Lit::Int(i), .. }) = &*u.expr {
                        let x = self.lit_int(&i.to_string(), want)?;
                        if x.ty.ity().is_some() {
                            return Ok(Tx { pre: vec![], term: format!("(-{})", x.term), ty: x.ty });
                        }
                    }
                    let x = self.expr(&u.expr, want)?;
                    match x.ty.clone() {
                        LT::F64 => Ok(Tx { pre: x.pre, term: format!("(Rs.f64Neg {})", x.term), ty: LT::F64 }),
                        LT::I(t) => {
                            let v = self.fresh("t");
                            let mut pre = x.pre;
                            pre.push(Pre::Bind(v.clone(), format!("(Rs.ineg .{} {})", t, x.term)));
                            Ok(Tx { pre, term: v, ty: LT::I(t) })
                        }
                        t => self.un(format!("unary minus on {:?} not modelled", t)),
                    }
                }
                _ => self.un("unary operator not modelled"),
            },
            Expr::Cast(c) => {
                if self.stack_mode() && matches!(&*c.ty, syn::Type::Ptr(_)) {
                    // `p as *mut _` / `as *const T` between pointers into the boxed array: the same offset
                    let x = self.expr(&c.expr, Some(&LT::I("isize")))?;
                    if x.ty != LT::I("isize") {
                        return self.un("cast to a pointer of something that is not a pointer into the stack's array");
                    }
                    return Ok(x);
                }
                let to = self.syn_ty(&c.ty);
                let hint = to.clone();
                let x = self.expr(&c.expr, Some(&hint))?;
                self.cast(x, &to)
            }
            Expr::Binary(b) => {
                match b.op {
                    BinOp::And(_) | BinOp::Or(_) => {
                        let l = self.expr(&b.left, Some(&LT::Bool))?;
                        let r = self.expr(&b.right, Some(&LT::Bool))?;
                        if !r.pre.is_empty() {
                            // the right operand can panic: it is evaluated only when the left one does not decide (no `?` / exits inside)
                            if r.pre.iter().any(|p| matches!(p, Pre::Try(..) | Pre::BindVm(..))) || l.ty != LT::Bool || r.ty != LT::Bool {
                                return self.un("right operand of a short-circuit operator can exit or changes the interpreter state; not modelled");
                            }
                            let v = self.fresh("t");
                            let rb = wrap_pre(&r.pre, format!("(Rs.M.ok {})", r.term));
                            let term = if matches!(b.op, BinOp::And(_)) {
                                format!("(if {} then {} else (Rs.M.ok false))", l.term, rb)
                            } else {
                                format!("(if {} then (Rs.M.ok true) else {})", l.term, rb)
                            };
                            let mut pre = l.pre;
                            pre.push(Pre::Bind(v.clone(), term));
                            return Ok(Tx { pre, term: v, ty: LT::Bool });
                        }
                        let o = if matches!(b.op, BinOp::And(_)) { "&&" } else { "||" };
                        return Ok(Tx { pre: l.pre, term: format!("({} {} {})", l.term, o, r.term), ty: LT::Bool });
                    }
                    _ => {}
                }
                // `n.trunc() != n`
                if let (BinOp::Ne(_), Expr::MethodCall(m)) = (&b.op, &*b.left) {
                    if m.method == "trunc" && m.args.is_empty() && toks(&*m.receiver) == toks(&*b.right) {
                        let x = self.expr(&b.right, Some(&LT::F64))?;
                        if x.ty == LT::F64 {
                            return Ok(Tx { pre: x.pre, term: format!("(Rs.f64TruncNe {})", x.term), ty: LT::Bool });
                        }
                    }
                }
                // operand types flow both ways
                let (l, r) = match self.expr(&b.left, want_arith(&b.op, want)) {
                    Ok(l) => {
                        let lt = l.ty.clone();
                        let r = self.expr(&b.right, Some(&lt))?;
                        (l, r)
                    }
                    Err(first) => {
                        let r = match self.expr(&b.right, want_arith(&b.op, want)) {
                            Ok(r) => r,
                            Err(_) => return Err(first),
                        };
                        let rt = r.ty.clone();
                        let l = self.expr(&b.left, Some(&rt))?;
                        (l, r)
                    }
                };
                if l.ty != r.ty {
                    return self.un(format!("operands of `{}` have different modelled types {:?} / {:?}", toks(&b.op), l.ty, r.ty));
                }
                match b.op {
                    BinOp::Eq(_) => self.cmp("==", l, r),
                    BinOp::Ne(_) => self.cmp("!=", l, r),
                    BinOp::Lt(_) => self.cmp("<", l, r),
                    BinOp::Le(_) => self.cmp("<=", l, r),
                    BinOp::Gt(_) => self.cmp(">", l, r),
                    BinOp::Ge(_) => self.cmp(">=", l, r),
                    _ => self.arith(&b.op, l, r),
                }
            }
            Expr::Tuple(t) => {
                let wants: Vec<Option<LT>> = match want {
                    Some(LT::Tup(ws)) if ws.len() == t.elems.len() => ws.iter().cloned().map(Some).collect(),
                    _ => vec![None; t.elems.len()],
                };
                let mut pre = Vec::new();
                let mut terms = Vec::new();
                let mut tys = Vec::new();
                for (x, w) in t.elems.iter().zip(wants.iter()) {
                    let tx = self.expr(x, w.as_ref())?;
                    pre.extend(tx.pre);
                    terms.push(tx.term);
                    tys.push(tx.ty);
                }
                if terms.is_empty() {
                    return Ok(pure("()", LT::Unit));
                }
                Ok(Tx { pre, term: format!("({})", terms.join(", ")), ty: LT::Tup(tys) })
            }
            Expr::Index(i) => {
                let base = self.expr(&i.expr, None)?;
                let elem = match &base.ty {
                    LT::List(t) => (**t).clone(),
                    t => return self.un(format!("indexing into {:?} not modelled", t)),
                };
                // constant index into the result of to_ne_bytes etc.
                let ix = self.expr(&i.index, Some(&LT::I("usize")))?;
                let mut pre = base.pre;
                pre.extend(ix.pre);
                let v = self.fresh("t");
                pre.push(Pre::Bind(v.clone(), format!("(Rs.idx {} {})", base.term, ix.term)));
                Ok(Tx { pre, term: v, ty: elem })
            }
            Expr::If(i) => {
                // expression-`if` whose branches are plain expressions
                let c = self.cond(&i.cond)?;
                let els = match &i.else_branch {
                    Some((_, e)) => e,
                    None => return self.un("expression-`if` without else"),
                };
                let t = self.block_value(&i.then_branch, want)?;
                let tt = t.ty.clone();
                let f = match &**els {
                    Expr::Block(b) => self.block_value(&b.block, Some(&tt))?,
                    other => self.expr(other, Some(&tt))?,
                };
                if !t.pre.is_empty() || !f.pre.is_empty() {
                    // branches that can panic: the whole `if` becomes a monadic term
                    let v = self.fresh("t");
                    let tb = wrap_pre(&t.pre, format!("(Rs.M.ok {})", t.term));
                    let fb = wrap_pre(&f.pre, format!("(Rs.M.ok {})", f.term));
                    let mut pre = c.pre;
                    pre.push(Pre::Bind(v.clone(), format!("(if {} then {} else {})", c.term, tb, fb)));
                    return Ok(Tx { pre, term: v, ty: t.ty });
                }
                Ok(Tx { pre: c.pre, term: format!("(if {} then {} else {})", c.term, t.term, f.term), ty: t.ty })
            }
            Expr::Block(b) => self.block_value(&b.block, want),
            Expr::Macro(m) => {
                let name = path_to_string(&m.mac.path);
                match name.as_str() {
                    "error" => self.error_macro(&m.mac),
                    "cfg" => {
                        let n = self.cfg_input(&m.mac);
                        Ok(pure(n, LT::Bool))
                    }
                    "vec" => {
                        // `vec![elem; n]`: n copies of a plain value
                        let parser = |input: syn::parse::ParseStream| -> syn::Result<(Expr, Expr)> {
                            let a: Expr = input.parse()?;
                            input.parse::<syn::Token![;]>()?;
                            let b: Expr = input.parse()?;
                            Ok((a, b))
                        };
                        let (elem, n) = match syn::parse::Parser::parse2(parser, m.mac.tokens.clone()) {
                            Ok(x) => x,
                            Err(_) => return self.un("macro `vec!` other than `vec![elem; n]` not modelled"),
                        };
                        let et = match want {
                            Some(LT::List(t)) => (**t).clone(),
                            _ => return self.un("`vec![elem; n]` without a known element type"),
                        };
                        let e = self.expr(&elem, Some(&et))?;
                        if e.ty != et {
                            return self.un(format!("`vec![elem; n]`: element has modelled type {:?}, expected {:?}", e.ty, et));
                        }
                        let k = self.expr(&n, Some(&LT::I("usize")))?;
                        if k.ty != LT::I("usize") {
                            return self.un("`vec![elem; n]`: n is not a usize");
                        }
                        let mut pre = e.pre;
                        pre.extend(k.pre);
                        Ok(Tx { pre, term: format!("(List.replicate ({}).toNat {})", k.term, e.term), ty: LT::List(Box::new(et)) })
                    }
                    other => self.un(format!("macro `{}!` in expression position not modelled", other)),
                }
            }
            Expr::Try(t) => {
                let x = self.expr(&t.expr, None)?;
                let (ok, err) = match &x.ty {
                    LT::Res(a, b) => ((**a).clone(), (**b).clone()),
                    t => return self.un(format!("`?` on {:?} not modelled", t)),
                };
                match &self.ret_ty {
                    LT::Res(_, e) if **e == err => {}
                    _ => return self.un("`?` in a function whose error type differs"),
                }
                let v = self.fresh("v");
                let exit = self.exit_text("(.error e_)");
                let mut pre = x.pre;
                pre.push(Pre::Try(v.clone(), x.term, exit));
                Ok(Tx { pre, term: v, ty: ok })
            }
            Expr::Struct(st) => {
                let sn = st.path.segments.last().map(|x| x.ident.to_string()).unwrap_or_default();
                let sn = if sn == "Self" { self.self_ty.clone().unwrap_or_default() } else { sn };
                if st.rest.is_some() {
                    return self.un("struct literal with `..rest`");
                }
                if sn == "ExcHandler" {
                    let mut pre = Vec::new();
                    let mut terms = Vec::new();
                    for (fname, fty) in [("catch_ip", LT::I("isize")), ("finally_ip", LT::I("isize")), ("init_stack_size", LT::I("usize")), ("frame_count", LT::I("usize"))] {
                        let fv = match st.fields.iter().find(|f| matches!(&f.member, syn::Member::Named(i) if i == fname)) {
                            Some(f) => f,
                            None => return self.un(format!("ExcHandler literal does not set `{}`", fname)),
                        };
                        let tx = self.expr(&fv.expr, Some(&fty))?;
                        if tx.ty != fty {
                            return self.un(format!("ExcHandler field `{}`: modelled types differ", fname));
                        }
                        pre.extend(tx.pre);
                        terms.push(tx.term);
                    }
                    return Ok(Tx { pre, term: format!("(Rs.Handler.mk {})", terms.join(" ")), ty: LT::Handler });
                }
                if let LT::Rec(_, fs) = self.conv(&Ty::path(&sn, vec![])) {
                    let mut pre = Vec::new();
                    let mut terms = Vec::new();
                    for (fname, fty) in &fs {
                        let fv = match st.fields.iter().find(|f| matches!(&f.member, syn::Member::Named(i) if i == fname)) {
                            Some(f) => f,
                            None => return self.un(format!("{} literal does not set `{}`", sn, fname)),
                        };
                        let tx = self.expr(&fv.expr, Some(fty))?;
                        if tx.ty != *fty {
                            return self.un(format!("{} field `{}`: modelled types differ", sn, fname));
                        }
                        pre.extend(tx.pre);
                        terms.push(tx.term);
                    }
                    return Ok(Tx { pre, term: format!("({})", terms.join(", ")), ty: LT::Rec(sn.clone(), fs) });
                }
                let fields = self.scalar_fields(&sn);
                if fields.is_empty() {
                    return self.un(format!("struct literal of `{}` has no scalar field", sn));
                }
                let mut pre = Vec::new();
                let mut terms = Vec::new();
                let mut tys = Vec::new();
                for (fname, fty) in &fields {
                    let fv = st.fields.iter().find(|f| matches!(&f.member, syn::Member::Named(i) if i == fname));
                    let fv = match fv {
                        Some(f) => f,
                        None => return self.un(format!("struct literal of `{}` does not set `{}`", sn, fname)),
                    };
                    let tx = self.expr(&fv.expr, Some(fty))?;
                    if tx.ty != *fty {
                        return self.un(format!("field `{}` of `{}`: modelled types differ", fname, sn));
                    }
                    pre.extend(tx.pre);
                    terms.push(tx.term);
                    tys.push(tx.ty);
                }
                if terms.len() == 1 {
                    return Ok(Tx { pre, term: terms.pop().unwrap(), ty: tys.pop().unwrap() });
                }
                Ok(Tx { pre, term: format!("({})", terms.join(", ")), ty: LT::Tup(tys) })
            }
            Expr::Unsafe(u) if u.block.stmts.len() == 1 => match &u.block.stmts[0] {
                Stmt::Expr(inner, None) => self.expr(inner, want),
                _ => self.un("unsafe block that is not a single expression"),
            },
            Expr::Call(c) => self.call(c, want),
            Expr::MethodCall(m) => self.method_call(m, want),
            other => self.un(format!("expression `{}` not modelled", truncate_chars(&compact(&toks(other)), 80))),
        }
    }

    fn cond(&mut self, e: &Expr) -> R<Tx> {
        if self.gc_mode {
            if let Some(tx) = self.gc_box_expr(e)? {
                return Ok(tx);
            }
        }
        let c = self.expr(e, Some(&LT::Bool))?;
        if c.ty != LT::Bool {
            return self.un(format!("condition `{}` is not a modelled bool", toks(e)));
        }
        Ok(c)
    }

    /// A block used as a value: `{ let …; expr }` with no control flow.
    fn block_value(&mut self, b: &syn::Block, want: Option<&LT>) -> R<Tx> {
        self.scopes.push(BTreeMap::new());
        let mut pre = Vec::new();
        let mut result = None;
        for (k, s) in b.stmts.iter().enumerate() {
            match s {
                Stmt::Local(l) => {
                    let (name, ann) = self.simple_pat(&l.pat)?;
                    let init = match &l.init {
                        Some(i) if i.diverge.is_none() => &i.expr,
                        _ => return self.un("`let` without initialiser in a value block"),
                    };
                    let annt = ann.clone();
                    let tx = self.expr(init, annt.as_ref())?;
                    pre.extend(tx.pre);
                    // the lets of a value block are flattened into the enclosing term: a name that shadows one still needed afterwards
                    // gets a Lean name of its own
                    let shadows = self.lookup(&name).is_some() || self.elem_aliases.contains_key(&name);
                    let lean = if shadows {
                        let l = self.fresh(&lean_ident(&name));
                        let saved = self.elem_aliases.get(&name).cloned();
                        self.scopes.last_mut().unwrap().insert(name.clone(), Var { lean: l.clone(), ty: tx.ty });
                        if let Some(a) = saved {
                            // (kept: the alias is visible again once the block's scope is popped)
                            self.elem_aliases.insert(name.clone(), a);
                        }
                        l
                    } else {
                        self.declare(&name, tx.ty)
                    };
                    pre.push(Pre::Let(lean, tx.term));
                }
                Stmt::Expr(e, None) if k + 1 == b.stmts.len() => {
                    let tx = self.expr(e, want)?;
                    pre.extend(tx.pre);
                    result = Some((tx.term, tx.ty));
                }
                other => {
                    self.scopes.pop();
                    return self.un(format!("statement `{}` in a value block not modelled", truncate_chars(&compact(&toks(other)), 60)));
                }
            }
        }
        self.scopes.pop();
        match result {
            Some((term, ty)) => Ok(Tx { pre, term, ty }),
            None => self.un("value block without tail expression"),
        }
    }

    fn simple_pat(&mut self, p: &Pat) -> R<(String, Option<LT>)> {
        match p {
            Pat::Ident(i) if i.subpat.is_none() => Ok((i.ident.to_string(), None)),
            Pat::Reference(r) => self.simple_pat(&r.pat),
            Pat::Type(t) => {
                let (n, _) = self.simple_pat(&t.pat)?;
                let ty = self.syn_ty(&t.ty);
                Ok((n, Some(ty)))
            }
            other => self.un(format!("pattern `{}` not modelled", toks(other))),
        }
    }

    fn call(&mut self, c: &syn::ExprCall, want: Option<&LT>) -> R<Tx> {
        if let Expr::Path(p) = &*c.func {
            if p.path.segments.len() == 1 {
                if let Some(v) = self.lookup(&p.path.segments[0].ident.to_string()) {
                    if v.ty == LT::OpFn && c.args.len() == 2 {
                        let a = self.expr(&c.args[0], Some(&LT::F64))?;
                        let b = self.expr(&c.args[1], Some(&LT::F64))?;
                        if a.ty != LT::F64 || b.ty != LT::F64 {
                            return self.un("operator closure applied to non-numbers");
                        }
                        let mut pre = a.pre;
                        pre.extend(b.pre);
                        let r = self.fresh("t");
                        pre.push(Pre::Bind(r.clone(), format!("({} {} {})", v.lean, a.term, b.term)));
                        return Ok(Tx { pre, term: r, ty: LT::Value });
                    }
                }
            }
        }
        let fname = match &*c.func {
            Expr::Path(p) => path_segments(&p.path).join("::"),
            other => return self.un(format!("call of `{}` not modelled", toks(other))),
        };
        let args: Vec<&Expr> = c.args.iter().collect();
        match (fname.as_str(), args.len()) {
            ("Ok", 1) => {
                let (wo, we) = match (want, &self.ret_ty) {
                    (Some(LT::Res(a, b)), _) => ((**a).clone(), (**b).clone()),
                    (_, LT::Res(a, b)) => ((**a).clone(), (**b).clone()),
                    _ => return self.un("`Ok(..)` where no Result type is expected"),
                };
                let x = self.expr(args[0], Some(&wo))?;
                let ty = LT::Res(Box::new(x.ty.clone()), Box::new(we));
                Ok(Tx { pre: x.pre, term: format!("(.ok {})", x.term), ty })
            }
            ("Err", 1) => {
                let (wo, we) = match (want, &self.ret_ty) {
                    (Some(LT::Res(a, b)), _) => ((**a).clone(), (**b).clone()),
                    (_, LT::Res(a, b)) => ((**a).clone(), (**b).clone()),
                    _ => return self.un("`Err(..)` where no Result type is expected"),
                };
                let x = self.expr(args[0], Some(&we))?;
                Ok(Tx { pre: x.pre, term: format!("(.error {})", x.term), ty: LT::Res(Box::new(wo), Box::new(we)) })
            }
            ("Some", 1) => {
                let w = match want {
                    Some(LT::Opt(t)) => Some((**t).clone()),
                    _ => match &self.ret_ty {
                        LT::Opt(t) => Some((**t).clone()),
                        _ => None,
                    },
                };
                let x = self.expr(args[0], w.as_ref())?;
                let ty = LT::Opt(Box::new(x.ty.clone()));
                Ok(Tx { pre: x.pre, term: format!("(some {})", x.term), ty })
            }
            ("Value::Boolean", 1) => {
                let x = self.expr(args[0], Some(&LT::Bool))?;
                if x.ty != LT::Bool {
                    return self.un("Value::Boolean of a non-bool");
                }
                Ok(Tx { pre: x.pre, term: format!("(Rs.Value.Boolean {})", x.term), ty: LT::Value })
            }
            ("Value::ObjClosure", 1) => {
                let x = self.expr(args[0], Some(&LT::Value))?;
                if x.ty != LT::Value {
                    return self.un("Value::ObjClosure of something the translator does not carry as a value");
                }
                Ok(x)
            }
            ("Value::Number", 1) => {
                let x = self.expr(args[0], Some(&LT::F64))?;
                if x.ty != LT::F64 {
                    return self.un("Value::Number of a non-f64");
                }
                Ok(Tx { pre: x.pre, term: format!("(Rs.Value.Number {})", x.term), ty: LT::Value })
            }
            ("mem::take", 1) | ("std::mem::take", 1) => {
                // `mem::take(x)` of an optional: answers what `x` holds and leaves `None`
                if let Some((l, i)) = self.elem_alias_of(args[0]) {
                    let lv = self.list_lvalue(&l)?;
                    let et = match &lv.ty {
                        LT::List(t) => (**t).clone(),
                        _ => unreachable!(),
                    };
                    if !matches!(et, LT::Opt(_)) {
                        return self.un("`mem::take` of an element that is not an option");
                    }
                    let ix = self.expr(&i, Some(&LT::I("usize")))?;
                    let mut pre = ix.pre;
                    let old = self.fresh("t");
                    pre.push(Pre::Bind(old.clone(), format!("(Rs.idx {} {})", lv.lean, ix.term)));
                    let nl = self.fresh("t");
                    pre.push(Pre::Bind(nl.clone(), format!("(Rs.setIdx {} {} none)", lv.lean, ix.term)));
                    pre.push(Pre::Let(lv.lean.clone(), nl));
                    return Ok(Tx { pre, term: old, ty: et });
                }
                let inner = match args[0] {
                    Expr::Reference(r) => &*r.expr,
                    other => other,
                };
                if let Expr::Path(pp) = inner {
                    if pp.path.segments.len() == 1 {
                        if let Some(v) = self.lookup(&pp.path.segments[0].ident.to_string()) {
                            if matches!(v.ty, LT::Opt(_)) {
                                let old = self.fresh("t");
                                let pre = vec![Pre::Let(old.clone(), v.lean.clone()), Pre::Let(v.lean.clone(), "none".to_string())];
                                return Ok(Tx { pre, term: old, ty: v.ty });
                            }
                        }
                    }
                }
                self.un("`mem::take` of something other than an optional local or list element")
            }
            ("u64::from_ne_bytes", 1) => {
                // u64::from_ne_bytes(x.to_ne_bytes()) of an f64: the bit pattern
                if let Expr::MethodCall(m) = args[0] {
                    if m.method == "to_ne_bytes" && m.args.is_empty() {
                        let x = self.expr(&m.receiver, None)?;
                        if x.ty == LT::F64 {
                            return Ok(Tx { pre: x.pre, term: format!("({}).toBitVec", x.term), ty: LT::BV(64) });
                        }
                    }
                }
                self.un("u64::from_ne_bytes of something other than f64::to_ne_bytes()")
            }
            _ => {
                let key = fname.rsplit("::").next().unwrap().to_string();
                if let Some(sig) = self.callees.get(&key).cloned() {
                    if !(sig.plain || sig.fuel_plain) || sig.params.len() != args.len() {
                        return self.un(format!("call of translated function `{}` with places/effects or arity mismatch", fname));
                    }
                    let mut pre = Vec::new();
                    let mut terms = Vec::new();
                    if sig.fuel_plain {
                        // the callee's `loop` bound is handed on: this function takes one too
                        self.loop_fuel = true;
                        terms.push("fuel_".to_string());
                    }
                    for (a, t) in args.iter().zip(sig.params.iter()) {
                        let x = self.expr(a, Some(t))?;
                        if x.ty != *t {
                            return self.un(format!("argument `{}` of `{}` has modelled type {:?}, expected {:?}", toks(*a), fname, x.ty, t));
                        }
                        pre.extend(x.pre);
                        terms.push(x.term);
                    }
                    let v = self.fresh("r");
                    pre.push(Pre::Bind(v.clone(), format!("(Fns.{} {})", sig.lean, terms.join(" "))));
                    return Ok(Tx { pre, term: v, ty: sig.ret });
                }
                self.un(format!("call of `{}` not modelled", fname))
            }
        }
    }

    /// `PLACE.m(args)` where `m` is a translated method of the struct that lives at PLACE (no effect log, no cfg inputs): the callee's
    /// `self.<path>` inputs and outputs are the caller's `PLACE.<path>` places, an object parameter's fields are read from the place given
    /// as argument.
    fn call_translated_on_place(&mut self, m: &syn::ExprMethodCall) -> R<Option<Tx>> {
        if self.vm_mode {
            return Ok(None);
        }
        let rp = match self.path_of(&m.receiver) {
            Some(p) => p,
            None => return Ok(None),
        };
        let comps: Vec<String> = rp.split('.').skip(1).map(|s| s.to_string()).collect();
        let root = rp.split('.').next().unwrap_or("self").to_string();
        let on_self = comps.is_empty();
        if on_self && !(rp == "self" && self.self_ty.as_deref().map(|o| INLINE_SELF_CALL_OWNERS.contains(&o)).unwrap_or(false)) {
            return Ok(None);
        }
        let head = if on_self {
            self.self_ty.clone().unwrap()
        } else {
            let rty = match self.place_type(&root, &comps) {
                Ok(t) => t,
                Err(_) => return Ok(None),
            };
            let mut rty = rty;
            loop {
                match &rty {
                    Ty::Ref(i) => rty = (**i).clone(),
                    Ty::Path { name, args } if TRANSPARENT.contains(&name.as_str()) && args.len() == 1 => rty = args[0].clone(),
                    _ => break,
                }
            }
            match rty.head() {
                Some(h) => h.to_string(),
                None => return Ok(None),
            }
        };
        let sig = match self.callees.get(&format!("{}::{}", head, m.method)) {
            Some(s) if (s.simple || (on_self && s.simple_fuel)) && s.owner.as_deref() == Some(head.as_str()) => s.clone(),
            _ => return Ok(None),
        };
        if sig.rust_params.len() != m.args.len() {
            return self.un(format!("call of translated `{}::{}` with {} arguments", head, m.method, m.args.len()));
        }
        let mut pre = Vec::new();
        let mut terms = Vec::new();
        if sig.simple_fuel {
            // the callee's `loop` bound is handed on: this function takes one too
            self.loop_fuel = true;
            terms.push("fuel_".to_string());
        }
        // value parameters, in order
        let mut vi = 0;
        let mut arg_places: BTreeMap<String, String> = BTreeMap::new();
        for ((pn, is_struct), a) in sig.rust_params.iter().zip(m.args.iter()) {
            if *is_struct {
                match self.path_of(a) {
                    Some(ap) => {
                        arg_places.insert(pn.clone(), ap);
                    }
                    // an object built on the spot (`&Token::from_string(..)`): the call is treated like one of an untranslated method
                    None => return Ok(None),
                }
            } else {
                let want = sig.params.get(vi).cloned();
                vi += 1;
                let x = self.expr(a, want.as_ref())?;
                if Some(&x.ty) != want.as_ref() {
                    return self.un(format!("argument `{}` of translated `{}::{}`: modelled types differ", toks(a), head, m.method));
                }
                pre.extend(x.pre);
                terms.push(x.term);
            }
        }
        for (path, ty) in &sig.place_ins {
            let caller_path = if let Some(rest) = path.strip_prefix("self.") {
                format!("{}.{}", rp, rest)
            } else {
                let (proot, prest) = match path.split_once('.') {
                    Some(x) => x,
                    None => return self.un(format!("callee input `{}` not understood", path)),
                };
                match arg_places.get(proot) {
                    Some(ap) => format!("{}.{}", ap, prest),
                    None => return self.un(format!("callee input `{}` has no argument place", path)),
                }
            };
            let v = self.place(&caller_path)?;
            if v.ty != *ty {
                return self.un(format!("place `{}` handed to translated `{}::{}`: modelled types differ", caller_path, head, m.method));
            }
            terms.push(v.lean);
        }
        let r = self.fresh("r");
        pre.push(Pre::Bind(r.clone(), format!("(Fns.{} {})", sig.lean, terms.join(" "))));
        // outputs: (ret, written…)
        let n_out = 1 + sig.written.len();
        let proj = |k: usize| -> String {
            if n_out == 1 {
                return r.clone();
            }
            let mut t = r.clone();
            for _ in 0..k {
                t = format!("{}.2", t);
            }
            if k + 1 < n_out {
                t = format!("{}.1", t);
            }
            t
        };
        for (k, w) in sig.written.iter().enumerate() {
            let rest = w.strip_prefix("self.").unwrap_or(w);
            let caller_path = format!("{}.{}", rp, rest);
            if !self.written.contains(&caller_path) {
                return self.un(format!("internal: write to `{}` through translated `{}::{}` missed by the pre-pass", caller_path, head, m.method));
            }
            let cur = self.place(&caller_path)?;
            pre.push(Pre::Let(cur.lean.clone(), proj(k + 1)));
        }
        let v = self.fresh("t");
        pre.push(Pre::Let(v.clone(), proj(0)));
        Ok(Some(Tx { pre, term: v, ty: sig.ret.clone() }))
    }

    fn method_call(&mut self, m: &syn::ExprMethodCall, want: Option<&LT>) -> R<Tx> {
        let name = m.method.to_string();
        let args: Vec<&Expr> = m.args.iter().collect();
        // places first: self.a.b.len(), self.entries[...]
        if args.is_empty() && matches!(name.as_str(), "borrow" | "borrow_mut" | "as_ref" | "as_mut" | "get" | "clone") {
            return self.expr(&m.receiver, want);
        }
        if let Some(tx) = self.call_translated_on_place(m)? {
            return Ok(tx);
        }
        if name == "replace" && args.len() == 1 {
            if let Some((l, i)) = self.elem_alias_of(&m.receiver) {
                // `x.replace(v)` where `let x = &mut LIST[i];` and the elements are options: answers the old element, stores `Some(v)`
                let lv = self.list_lvalue(&l)?;
                let et = match &lv.ty {
                    LT::List(t) => (**t).clone(),
                    _ => unreachable!(),
                };
                let inner = match &et {
                    LT::Opt(t) => (**t).clone(),
                    _ => return self.un("`replace` through a reference to an element that is not an option"),
                };
                let x = self.expr(args[0], Some(&inner))?;
                if x.ty != inner {
                    return self.un("`replace` on an optional element: modelled types differ");
                }
                let ix = self.expr(&i, Some(&LT::I("usize")))?;
                let mut pre = x.pre;
                pre.extend(ix.pre);
                let old = self.fresh("t");
                pre.push(Pre::Bind(old.clone(), format!("(Rs.idx {} {})", lv.lean, ix.term)));
                let nl = self.fresh("t");
                pre.push(Pre::Bind(nl.clone(), format!("(Rs.setIdx {} {} (some {}))", lv.lean, ix.term, x.term)));
                pre.push(Pre::Let(lv.lean.clone(), nl));
                return Ok(Tx { pre, term: old, ty: et });
            }
        }
        if self.vm_mode {
            let rp = self.path_of(&m.receiver);
            let on_vm = rp.as_deref() == Some("self");
            let on_fiber = matches!(rp.as_deref(), Some("self.active_fiber()") | Some("self.active_fiber_mut()")) || (self.fiber_mode && on_vm);
            if on_vm && !self.fiber_mode {
                if let Some(tx) = self.vm_intrinsic(&name, &args)? {
                    return Ok(tx);
                }
            }
            if on_fiber {
                if let Some(sig) = self.callees.get(&format!("fiber::{}", name)).cloned() {
                    if sig.params.len() == args.len() {
                        let mut pre = Vec::new();
                        let mut terms = Vec::new();
                        for (a, t) in args.iter().zip(sig.params.iter()) {
                            let x = self.expr(a, Some(t))?;
                            pre.extend(x.pre);
                            terms.push(x.term);
                        }
                        let v = self.fresh("t");
                        pre.push(Pre::BindVm(v.clone(), format!("(Fns.{} {} vm_)", sig.lean, terms.join(" "))));
                        return Ok(Tx { pre, term: v, ty: sig.ret });
                    }
                }
            }
            if on_fiber && args.is_empty() {
                // `ObjFiber::is_new` / `has_finished` of the running fiber (their bodies are re-read on every run)
                if name == "is_new" && self.method_body_of("ObjFiber", "is_new").as_deref() == Some("{self.frames.len()==1&&self.frames[0].ip==self.frames[0].closure.function.chunk.code.as_ptr()}") {
                    return Ok(pure("(Rs.Vm.isNew vm_)", LT::Bool));
                }
                if name == "has_finished" && self.method_body_of("ObjFiber", "has_finished").as_deref() == Some("{self.frames.is_empty()}") {
                    return Ok(pure("(Rs.Vm.hasFinished vm_)", LT::Bool));
                }
            }
            // operations on a place of the abstract state
            if let Some(p) = rp {
                if let Some((term, ty)) = vm_place(&p) {
                    let v = self.fresh("t");
                    if term == "vm_.curId" && name == "replace" && args.len() == 1 {
                        // `self.fiber.replace(f)`: the running fiber is parked, f becomes the running one; answers the old designation
                        let x = self.expr(args[0], Some(&LT::FiberId))?;
                        if x.ty != LT::FiberId {
                            return self.un("self.fiber.replace(..) of something that is not a fiber");
                        }
                        let mut pre = x.pre;
                        pre.push(Pre::BindVm(v.clone(), format!("(Rs.Vm.replaceFiber vm_ (some {}))", x.term)));
                        return Ok(Tx { pre, term: v, ty: LT::Opt(Box::new(LT::FiberId)) });
                    }
                    match (name.as_str(), args.len(), &ty) {
                        ("pop", 0, LT::List(t)) if **t == LT::Handler => {
                            return Ok(Tx { pre: vec![Pre::BindVm(v.clone(), "(Rs.Vm.popHandler vm_)".into())], term: v, ty: LT::Opt(Box::new(LT::Handler)) });
                        }
                        ("take", 0, LT::Opt(t)) if term == "vm_.returnIp" => {
                            return Ok(Tx { pre: vec![Pre::BindVm(v.clone(), "(Rs.Vm.takeReturnIp vm_)".into())], term: v, ty: LT::Opt(t.clone()) });
                        }
                        _ => {}
                    }
                }
            }
            if on_vm && name == "new_error_from_value" && args.len() == 1 {
                let x = self.expr(args[0], Some(&LT::Value))?;
                return Ok(Tx { pre: x.pre, term: format!("(Rs.errorFromValue {})", x.term), ty: LT::ErrT });
            }
        }
        // `self.m(args)` / `self.compiler().m(args)` in expression position where `m` is not translated and answers a scalar, an optional
        // pair of numbers or `Result<(), CompilerError>`: an effect (logged in order, with its arguments) whose answer is an input of
        // the generated function; after a `&mut self` callee every place is re-read
        if !self.vm_mode && (!self.callees.contains_key(&name) || self.path_of(&m.receiver).as_deref() == Some("self.compiler()")) {
            let rp = self.path_of(&m.receiver);
            let owner: Option<String> = match rp.as_deref() {
                Some("self") => self.self_ty.clone(),
                Some("self.compiler()") if self.self_ty.as_deref() == Some("Parser") => Some("Compiler".to_string()),
                _ => None,
            };
            if let (Some(owner), Some(rp)) = (owner, rp) {
                if let Some((is_mut, rt)) = self.method_sig_on(&owner, &name) {
                    let lt = self.conv(&rt);
                    let pair = LT::Opt(Box::new(LT::Tup(vec![LT::I("usize"), LT::I("usize")])));
                    let res = LT::Res(Box::new(LT::Unit), Box::new(LT::Enum("CompilerError".into())));
                    let wanted = matches!(lt, LT::I(_) | LT::BV(_) | LT::Bool) || lt == pair || lt == res;
                    // 0-argument readers of the parser itself (`chunk()`, `compiler()`, ...) stay places
                    let reader = args.is_empty() && !is_mut && rp == "self";
                    if wanted && !reader && (is_mut || rp != "self" || !args.is_empty()) {
                        if let LT::Res(_, e) = &lt {
                            if let LT::Enum(n) = &**e {
                                self.enums_used.insert(n.clone());
                            }
                        }
                        let mut pre = Vec::new();
                        let mut texts = Vec::new();
                        for a in args.iter() {
                            let (p2, t) = self.arg_text(a);
                            pre.extend(p2);
                            texts.push(t);
                        }
                        self.has_effects = true;
                        pre.push(Pre::Let("effs_".to_string(), format!("effs_ ++ [Rs.Eff.mk {} [{}]]", lean_str(&format!("{}.{}", rp, name)), texts.join(", "))));
                        if is_mut {
                            self.invalidate_places();
                        }
                        let v = self.fresh(&format!("ans_{}", name));
                        let lean = self.declare(&v, lt.clone());
                        self.inputs.push((lean.clone(), lt.clone(), format!("what the untranslated `{}.{}(..)` answers (call in expression position)", rp, name)));
                        return Ok(Tx { pre, term: lean, ty: lt });
                    }
                }
            }
        }
        let recv = self.expr(&m.receiver, None)?;
        // a translated method of `Value` (`into_bool`, `try_as_number`, …): the receiver is its last argument
        if recv.ty == LT::Value {
            if let Some(sig) = self.callees.get(&name).cloned() {
                if sig.self_only && sig.params.len() == args.len() {
                    let mut pre = recv.pre;
                    let mut terms = Vec::new();
                    for (a, t) in args.iter().zip(sig.params.iter()) {
                        let x = self.expr(a, Some(t))?;
                        pre.extend(x.pre);
                        terms.push(x.term);
                    }
                    terms.push(recv.term);
                    let v = self.fresh("r");
                    pre.push(Pre::Bind(v.clone(), format!("(Fns.{} {})", sig.lean, terms.join(" "))));
                    return Ok(Tx { pre, term: v, ty: sig.ret });
                }
            }
        }
        match (name.as_str(), args.len(), recv.ty.clone()) {
            ("offset", 1, LT::I("isize")) => {
                // `ptr.offset(k)` on the instruction pointer, kept as an offset into the code
                let a = self.expr(args[0], Some(&LT::I("isize")))?;
                let mut pre = recv.pre;
                pre.extend(a.pre);
                Ok(Tx { pre, term: format!("({} + {})", recv.term, a.term), ty: LT::I("isize") })
            }
            ("len", 0, LT::List(_)) => Ok(Tx { pre: recv.pre, term: format!("(Rs.len {})", recv.term), ty: LT::I("usize") }),
            // `self.stack.as_ptr()`: the start of the boxed array = offset 0
            ("as_ptr", 0, LT::List(_)) if self.stack_mode() => Ok(Tx { pre: recv.pre, term: "(0 : Int)".into(), ty: LT::I("isize") }),
            ("offset_from", 1, LT::I("isize")) if self.stack_mode() => {
                let a = self.expr(args[0], Some(&LT::I("isize")))?;
                if a.ty != LT::I("isize") {
                    return self.un("offset_from of something that is not a pointer into the stack's array");
                }
                let mut pre = recv.pre;
                pre.extend(a.pre);
                Ok(Tx { pre, term: format!("({} - {})", recv.term, a.term), ty: LT::I("isize") })
            }
            ("iter", 0, LT::List(_)) => Ok(recv),
            ("rev", 0, LT::List(_)) => Ok(Tx { pre: recv.pre, term: format!("(List.reverse {})", recv.term), ty: recv.ty }),
            ("enumerate", 0, LT::List(t)) => Ok(Tx {
                pre: recv.pre,
                term: format!("(Rs.enumerate {})", recv.term),
                ty: LT::List(Box::new(LT::Tup(vec![LT::I("usize"), *t]))),
            }),
            // `ObjString::as_str` (its body, re-read on every run, must be `self.string.as_str()`): the text field of the record
            ("as_str", 0, LT::Rec(rn, fs)) if rn == "ObjString" && self.method_body_of("ObjString", "as_str").as_deref() == Some("{self.string.as_str()}") => {
                let k = fs.iter().position(|(n, _)| n == "string").unwrap();
                let mut term = recv.term.clone();
                for _ in 0..k {
                    term = format!("{}.2", term);
                }
                if k + 1 < fs.len() {
                    term = format!("{}.1", term);
                }
                Ok(Tx { pre: recv.pre, term: format!("({})", term), ty: LT::Str })
            }
            ("as_str", 0, LT::Str) => Ok(recv),
            // a fiber named by its number: handles and pointers to it are the same number
            ("as_root", 0, LT::FiberId) | ("as_gc", 0, LT::FiberId) => Ok(recv),
            ("as_ptr", 0, LT::FiberId) => Ok(Tx { pre: recv.pre, term: format!("(some {})", recv.term), ty: LT::Opt(Box::new(LT::FiberId)) }),
            ("has_finished", 0, LT::FiberId) if self.vm_mode && self.method_body_of("ObjFiber", "has_finished").as_deref() == Some("{self.frames.is_empty()}") => {
                let v = self.fresh("t");
                let mut pre = recv.pre;
                pre.push(Pre::Bind(v.clone(), format!("(Rs.Vm.fiberRec vm_ {})", recv.term)));
                Ok(Tx { pre, term: format!("({}).hasFinished", v), ty: LT::Bool })
            }
            ("is_new", 0, LT::FiberId)
                if self.vm_mode
                    && self.method_body_of("ObjFiber", "is_new").as_deref()
                        == Some("{self.frames.len()==1&&self.frames[0].ip==self.frames[0].closure.function.chunk.code.as_ptr()}") =>
            {
                let v = self.fresh("t");
                let mut pre = recv.pre;
                pre.push(Pre::Bind(v.clone(), format!("(Rs.Vm.fiberRec vm_ {})", recv.term)));
                Ok(Tx { pre, term: format!("({}).isNew", v), ty: LT::Bool })
            }
            ("unwrap_or_default", 0, LT::Opt(t)) if *t == LT::Value => Ok(Tx { pre: recv.pre, term: format!("(({}).getD Rs.Value.None)", recv.term), ty: LT::Value }),
            ("map", 1, LT::Opt(t)) if *t == LT::FiberId => {
                // `opt.map(|p| p.as_gc())` and the like: a closure that only converts between handles of one fiber
                if let Expr::Closure(c) = args[0] {
                    if c.inputs.len() == 1 {
                        let (pn, _) = self.simple_pat(&c.inputs[0])?;
                        let body = compact(&toks(&*c.body));
                        if body == format!("{}.as_gc()", pn) || body == format!("{}.as_root()", pn) || body == pn {
                            return Ok(recv);
                        }
                    }
                }
                self.un("`map` on an optional fiber with a closure that is not a handle conversion")
            }
            ("is_none", 0, LT::Opt(_)) => Ok(Tx { pre: recv.pre, term: format!("({}).isNone", recv.term), ty: LT::Bool }),
            ("is_some", 0, LT::Opt(_)) => Ok(Tx { pre: recv.pre, term: format!("({}).isSome", recv.term), ty: LT::Bool }),
            ("has_catch_block", 0, LT::Handler) if self.callees.contains_key("handler::has_catch_block") => {
                let sig = self.callees["handler::has_catch_block"].clone();
                let v = self.fresh("r");
                let mut pre = recv.pre;
                let args: Vec<String> = sig.self_paths.iter().map(|p| format!("({}).{}", recv.term, p.trim_start_matches("self."))).collect();
                pre.push(Pre::Bind(v.clone(), format!("(Fns.{} {})", sig.lean, args.join(" "))));
                Ok(Tx { pre, term: v, ty: sig.ret })
            }
            ("expect", 1, LT::Opt(t)) => {
                let v = self.fresh("t");
                let mut pre = recv.pre;
                pre.push(Pre::Bind(v.clone(), format!("(Rs.unwrap {})", recv.term)));
                Ok(Tx { pre, term: v, ty: *t })
            }
            ("unwrap", 0, LT::Opt(t)) => {
                let v = self.fresh("t");
                let mut pre = recv.pre;
                pre.push(Pre::Bind(v.clone(), format!("(Rs.unwrap {})", recv.term)));
                Ok(Tx { pre, term: v, ty: *t })
            }
            ("wrapping_add", 1, LT::BV(_)) | ("wrapping_mul", 1, LT::BV(_)) | ("wrapping_sub", 1, LT::BV(_)) => {
                let rt = recv.ty.clone();
                let a = self.expr(args[0], Some(&rt))?;
                if a.ty != rt {
                    return self.un("wrapping operation on operands of different widths");
                }
                let op = match name.as_str() {
                    "wrapping_add" => "+",
                    "wrapping_mul" => "*",
                    _ => "-",
                };
                let mut pre = recv.pre;
                pre.extend(a.pre);
                Ok(Tx { pre, term: format!("({} {} {})", recv.term, op, a.term), ty: rt })
            }
            ("wrapping_shl", 1, LT::BV(_)) | ("wrapping_shr", 1, LT::BV(_)) => {
                let n = match args[0] {
                    Expr::Lit(syn::ExprLit { lit: syn::Lit::Int(i), .. }) => i.base10_digits().to_string(),
                    other => return self.un(format!("shift amount `{}` is not a literal", toks(other))),
                };
                let f = if name == "wrapping_shl" { "Rs.wshl" } else { "Rs.wshr" };
                Ok(Tx { pre: recv.pre, term: format!("({} {} {})", f, recv.term, n), ty: recv.ty })
            }
            ("checked_shl", 1, LT::I("i64")) | ("checked_shr", 1, LT::I("i64")) => {
                let a = self.expr(args[0], Some(&LT::BV(32)))?;
                if a.ty != LT::BV(32) {
                    return self.un("checked shift by something other than a u32");
                }
                let f = if name == "checked_shl" { "Rs.checkedShl64" } else { "Rs.checkedShr64" };
                let mut pre = recv.pre;
                pre.extend(a.pre);
                Ok(Tx { pre, term: format!("({} {} {})", f, recv.term, a.term), ty: LT::Opt(Box::new(LT::I("i64"))) })
            }
            ("unwrap_or_default", 0, LT::Opt(t)) if matches!(*t, LT::I(_)) => {
                Ok(Tx { pre: recv.pre, term: format!("(({}).getD 0)", recv.term), ty: *t })
            }
            ("to_ne_bytes", 0, LT::BV(16)) => Ok(Tx {
                pre: recv.pre,
                // little-endian target (x86-64 / aarch64): low byte first
                term: format!("[({t}).setWidth 8, (({t}) >>> 8).setWidth 8]", t = recv.term),
                ty: LT::List(Box::new(LT::BV(8))),
            }),
            ("trunc", 0, LT::F64) => self.un("`trunc()` outside the pattern `n.trunc() != n`"),
            (n, k, t) => self.un(format!("method `{}` with {} argument(s) on {:?} not modelled", n, k, t)),
        }
    }
}

fn lean_cmp(o: &str) -> &'static str {
    match o {
        "<" => "<",
        "<=" => "≤",
        ">" => ">",
        ">=" => "≥",
        _ => "=",
    }
}

fn want_arith<'x>(op: &BinOp, want: Option<&'x LT>) -> Option<&'x LT> {
    match op {
        BinOp::Eq(_) | BinOp::Ne(_) | BinOp::Lt(_) | BinOp::Le(_) | BinOp::Gt(_) | BinOp::Ge(_) => None,
        _ => want,
    }
}

impl<'a> Cx<'a> {
    /// Methods of `Vm` given a fixed meaning over the abstract interpreter state (`Rs.Vm` in RustSem.lean).
    fn vm_intrinsic(&mut self, name: &str, args: &[&Expr]) -> R<Option<Tx>> {
        let v = self.fresh("t");
        Ok(Some(match (name, args.len()) {
            ("pop", 0) => Tx { pre: vec![Pre::BindVm(v.clone(), "(Rs.Vm.pop vm_)".into())], term: v, ty: LT::Value },
            ("read_byte", 0) => Tx { pre: vec![Pre::BindVm(v.clone(), "(Rs.Vm.readByte vm_)".into())], term: v, ty: LT::BV(8) },
            ("read_short", 0) => Tx { pre: vec![Pre::BindVm(v.clone(), "(Rs.Vm.readShort vm_)".into())], term: v, ty: LT::BV(16) },
            ("peek", 1) => {
                let d = self.expr(args[0], Some(&LT::I("usize")))?;
                let mut pre = d.pre;
                pre.push(Pre::Bind(v.clone(), format!("(Rs.Vm.peek vm_ {})", d.term)));
                Tx { pre, term: v, ty: LT::Value }
            }
            ("try_handle_error", 1) => {
                let e = self.expr(args[0], Some(&LT::ErrT))?;
                if e.ty != LT::ErrT {
                    return self.un("try_handle_error of something that is not an Error built by error!");
                }
                let mut pre = e.pre;
                pre.push(Pre::BindVm(v.clone(), format!("(Rs.Vm.raise vm_ {})", e.term)));
                Tx { pre, term: v, ty: LT::Res(Box::new(LT::Unit), Box::new(LT::ErrT)) }
            }
            _ => {
                // another translated method of Vm
                if let Some(sig) = self.callees.get(name).cloned() {
                    if sig.lean.starts_with("vm_") && sig.params.len() == args.len() {
                        let mut pre = Vec::new();
                        let mut terms = Vec::new();
                        for (a, t) in args.iter().zip(sig.params.iter()) {
                            let x = self.expr(a, Some(t))?;
                            pre.extend(x.pre);
                            terms.push(x.term);
                        }
                        pre.push(Pre::BindVm(v.clone(), format!("(Fns.{} {} vm_)", sig.lean, terms.join(" "))));
                        return Ok(Some(Tx { pre, term: v, ty: sig.ret }));
                    }
                }
                return Ok(None);
            }
        }))
    }
}

impl<'a> Cx<'a> {
    /// `const NAME: f64 = <float literal>;` anywhere in the sources (also inside nested modules): its bit pattern.
    fn f64_const(&self, name: &str) -> Option<u64> {
        fn walk(items: &[syn::Item], name: &str, out: &mut Vec<u64>) {
            for it in items {
                match it {
                    syn::Item::Const(c) if c.ident == name && compact(&toks(&*c.ty)) == "f64" => {
                        if let Expr::Lit(syn::ExprLit { lit: syn::Lit::Float(f), .. }) = &*c.expr {
                            if let Ok(v) = f.base10_parse::<f64>() {
                                out.push(v.to_bits());
                            }
                        }
                    }
                    syn::Item::Mod(m) => {
                        if let Some((_, its)) = &m.content {
                            walk(its, name, out);
                        }
                    }
                    _ => {}
                }
            }
        }
        let mut out = Vec::new();
        for s in self.srcs {
            walk(&s.ast.items, name, &mut out);
        }
        if out.len() == 1 {
            Some(out[0])
        } else {
            None
        }
    }
}
