// ---- types of the Lean side -------------------------------------------------------------------

#[derive(Clone, Debug, PartialEq)]
pub enum LT {
    I(&'static str), // usize | isize | i64 | i32   -> Int (checked)
    BV(u32),         // u8..u128                    -> BitVec w
    F64,
    Bool,
    Unit,
    Value,
    Str,
    ErrT, // the language-level Error built by error!
    Opt(Box<LT>),
    Res(Box<LT>, Box<LT>),
    List(Box<LT>),
    Tup(Vec<LT>),
    Enum(String),   // enum with unit variants only, emitted as a Lean inductive
    Struct(String), // a struct reached through a place path (never a Lean value by itself)
    Rec(String, Vec<(String, LT)>), // a small plain-data struct carried as a value: the tuple of its fields, in declaration order
    Opaque,         // anything else: carried as the source text
    OpFn,           // `fn(f64, f64) -> Value`: an operator closure handed to binary_op_impl
    VmT,            // the abstract interpreter state
    Handler,        // object.rs ExcHandler
    ClosureRec,     // a `Gc<ObjClosure>` as the call mechanism sees it: Rs.ClosureRec
    GcBox,          // a box of the heap handed to a closure of a collector pass: its index
    FiberId,        // a `Gc<RefCell<ObjFiber>>` / `Root<..>` / `*mut ObjFiber`: the number that names the fiber
}

impl LT {
    fn lean(&self) -> String {
        match self {
            LT::I(_) => "Int".into(),
            LT::BV(w) => format!("(BitVec {})", w),
            LT::F64 => "UInt64".into(),
            LT::Bool => "Bool".into(),
            LT::Unit => "Unit".into(),
            LT::Value => "Rs.Value".into(),
            LT::Str => "String".into(),
            LT::ErrT => "Rs.Err".into(),
            LT::Opt(t) => format!("(Option {})", t.lean()),
            LT::Res(t, e) => format!("(Except {} {})", e.lean(), t.lean()),
            LT::List(t) => format!("(List {})", t.lean()),
            LT::Tup(v) => {
                if v.is_empty() {
                    "Unit".into()
                } else {
                    format!("({})", v.iter().map(|t| t.lean()).collect::<Vec<_>>().join(" × "))
                }
            }
            LT::Enum(n) => format!("Fns.{}", n),
            LT::Rec(_, fs) => format!("({})", fs.iter().map(|(_, t)| t.lean()).collect::<Vec<_>>().join(" × ")),
            LT::Struct(_) | LT::Opaque => "String".into(),
            LT::OpFn => "(UInt64 → UInt64 → Rs.M Rs.Value)".into(),
            LT::VmT => "Rs.Vm".into(),
            LT::Handler => "Rs.Handler".into(),
            LT::FiberId => "Nat".into(),
            LT::GcBox => "Nat".into(),
            LT::ClosureRec => "Rs.ClosureRec".into(),
        }
    }
    fn ity(&self) -> Option<&'static str> {
        if let LT::I(t) = self {
            Some(t)
        } else {
            None
        }
    }
}

fn int_ty(name: &str) -> Option<LT> {
    Some(match name {
        "usize" => LT::I("usize"),
        "isize" => LT::I("isize"),
        "i64" => LT::I("i64"),
        "i32" => LT::I("i32"),
        "u8" => LT::BV(8),
        "u16" => LT::BV(16),
        "u32" => LT::BV(32),
        "u64" => LT::BV(64),
        "u128" => LT::BV(128),
        _ => return None,
    })
}

/// `&mut self` methods of the compiler that only append to the chunk being written (checked against their bodies on every run).
const FOOTPRINT_CHUNK_ONLY: &[&str] = &["emit_byte", "emit_bytes"];

/// Plain-data structs (every field a modelled value) that are carried as Lean tuples.
const RECORDS: &[&str] = &["Local", "Upvalue"];

const TRANSPARENT: &[&str] = &["Gc", "Root", "UniqueRoot", "RefCell", "Ref", "RefMut", "Box", "Pin", "Cell"];

#[derive(Clone, Debug)]
struct Var {
    lean: String,
    ty: LT,
}

#[derive(Clone, Debug)]
enum Pre {
    /// `Rs.M.bind (term) fun var => …`
    Bind(String, String),
    /// `match term with | .error e_ => <exit with the error> | .ok var => …` (the `?` operator); the exit text is fixed when created
    Try(String, String, String),
    /// `let var := term; …`
    Let(String, String),
    /// an operation on the abstract interpreter state: `Rs.M.bind (term) fun r_ => let var := r_.1; let vm_ := r_.2; …`
    BindVm(String, String),
}

struct Tx {
    pre: Vec<Pre>,
    term: String,
    ty: LT,
}

fn pure(term: impl Into<String>, ty: LT) -> Tx {
    Tx { pre: Vec::new(), term: term.into(), ty }
}

fn wrap_pre(pre: &[Pre], body: String) -> String {
    let mut out = body;
    for p in pre.iter().rev() {
        out = match p {
            Pre::Bind(v, t) => format!("(Rs.M.bind {} fun {} =>\n  {})", t, v, out),
            Pre::Try(v, t, exit) => format!("(match {} with\n  | .error e_ => {}\n  | .ok {} =>\n  {})", t, exit, v, out),
            Pre::Let(v, t) => format!("(let {} := {};\n  {})", v, t, out),
            Pre::BindVm(v, t) => format!("(Rs.M.bind {} fun r_ =>\n  let {} := r_.1; let vm_ := r_.2;\n  {})", t, v, out),
        };
    }
    out
}

pub struct FnTarget {
    pub file: &'static str,
    /// impl self type (None: free function, possibly inside a nested module)
    pub owner: Option<&'static str>,
    pub name: &'static str,
    pub lean: &'static str,
    /// `let <name> = …` whose right-hand side is NOT translated: the variable becomes an input of the Lean function
    pub havoc: &'static [(&'static str, &'static str)],
    /// macros / guarded blocks that are ignored (tracing output)
    pub ignore_cfg_features: &'static [&'static str],
}

#[derive(Clone)]
enum Kont {
    /// end of the function body: the tail value is the return value
    Return,
    /// end of a branch of a statement-`if`: yield the current values of these (rust name or place path, is_place)
    Join(Vec<(String, bool)>),
    /// end of a `loop` body: continue with these
    LoopCont(Vec<(String, bool)>),
}

struct Cx<'a> {
    db: &'a TypeDb,
    srcs: &'a [Src],
    consts: &'a BTreeMap<String, i128>,
    file: String,
    item: String,
    self_ty: Option<String>,
    scopes: Vec<BTreeMap<String, Var>>,
    aliases: BTreeMap<String, String>,
    places: BTreeMap<String, Var>,
    place_version: BTreeMap<String, usize>,
    inputs: Vec<(String, LT, String)>,
    written: Vec<String>,
    has_effects: bool,
    fresh: usize,
    ret_ty: LT,
    havoc: BTreeMap<String, String>,
    ignore_cfg_features: Vec<String>,
    cfg_inputs: Vec<(String, String)>,
    enums_used: BTreeSet<String>,
    callees: &'a BTreeMap<String, Sig>,
    accessors: BTreeSet<String>,
    loop_fuel: bool,
    loop_depth: usize,
    /// innermost-last: the continuation of the enclosing `for` body and the Boolean that records a `break`
    for_konts: Vec<(Kont, String)>,
    /// innermost-last: what a `continue` of the enclosing `for` body continues with
    cont_konts: Vec<Kont>,
    /// `let x = &mut LIST[i];` with `i` an immutable local: `x` stands for that element (list expression, index expression)
    elem_aliases: BTreeMap<String, (Expr, Expr)>,
    /// number of invalidations that may have changed a plain (non-Cell) place so far
    hard_inval: usize,
    epoch: usize,
    struct_params: BTreeMap<String, Ty>,
    /// translating a method of `Vm` over the abstract interpreter state `vm_ : Rs.Vm`
    vm_mode: bool,
    /// … of `ObjFiber` (its own fields are the fiber part of that state)
    fiber_mode: bool,
    /// a collector pass of `Heap`: the state `vm_` is the heap of boxes (`Rs.GcHeap`)
    gc_mode: bool,
}

#[derive(Clone)]
pub struct Sig {
    pub lean: String,
    pub params: Vec<LT>,
    pub ret: LT,
    /// (extra inputs, has extra outputs): only plain functions (no places, no effects) may be called from translated code
    pub plain: bool,
    /// like `plain`, except that the function takes a bound on the iterations of its `loop` as first argument
    pub fuel_plain: bool,
    /// a method whose only extra input is its receiver (`self` by value or by shared reference): callable as `recv.name(args)`
    pub self_only: bool,
    /// for a method of a small struct passed by value (ExcHandler): the `self.<field>` places it reads, in input order
    pub self_paths: Vec<String>,
    /// the impl the function belongs to
    pub owner: Option<String>,
    /// the Rust parameters in declaration order: (name, is an object parameter whose fields are read as places)
    pub rust_params: Vec<(String, bool)>,
    /// the Lean inputs after the parameters, in emitted order: (place path such as `self.locals` or `name.source`, type)
    pub place_ins: Vec<(String, LT)>,
    /// the `self` places written, in output order
    pub written: Vec<String>,
    /// no effect log, no cfg inputs, no fuel, not over the abstract interpreter state: callable from translated code on a sub-place
    pub simple: bool,
    /// like `simple`, except that the function takes a bound on the iterations of a `loop` (its own or a callee's) as first argument
    pub simple_fuel: bool,
}

/// Structs whose translated methods may be called on `self` from other translated methods of the same struct (everywhere else a
/// `self.m(..)` statement is an entry of the effect log, which is what the statement-compiler theorems are stated over).
const INLINE_SELF_CALL_OWNERS: &[&str] = &["ObjStringStore", "Stack"];

fn lean_ident(s: &str) -> String {
    let mut out: String = s
        .chars()
        .map(|c| if c.is_ascii_alphanumeric() || c == '_' { c } else { '_' })
        .collect();
    const KW: &[&str] = &[
        "type", "end", "begin", "from", "at", "in", "do", "then", "else", "if", "fun", "let", "have", "show", "match", "with",
        "where", "open", "instance", "class", "structure", "def", "theorem", "local", "private", "protected", "macro", "syntax",
        "namespace", "section", "variable", "universe", "import", "export", "prefix", "infix", "notation", "deriving", "mutual",
        "partial", "unsafe", "return", "for", "unless", "try", "catch", "finally", "by", "using", "calc", "set", "next",
    ];
    if KW.contains(&out.as_str()) || out.chars().next().map(|c| c.is_ascii_digit()).unwrap_or(true) {
        out.push('_');
    }
    out
}

impl<'a> Cx<'a> {
    /// translating a method of `stack.rs: Stack<T, N>`: pointers into `self.stack` are offsets, `*p` reads / writes the array
    fn stack_mode(&self) -> bool {
        self.self_ty.as_deref() == Some("Stack") && self.file == "stack.rs"
    }

    fn un<T>(&self, why: impl Into<String>) -> R<T> {
        if std::env::var("XLATE_DEBUG").is_ok() {
            eprintln!("UN {}: {}", self.item, std::backtrace::Backtrace::force_capture());
        }
        unsup(&self.file, &self.item, why)
    }

    fn fresh(&mut self, base: &str) -> String {
        self.fresh += 1;
        format!("{}_{}", base, self.fresh)
    }

    fn conv(&mut self, t: &Ty) -> LT {
        match t {
            Ty::Ref(i) => self.conv(i),
            Ty::RawPtr { inner, .. } if matches!(&**inner, Ty::Path { name, .. } if name == "u8") => LT::I("isize"),
            // `*mut T` inside `impl Stack<T, N>`: a pointer into the boxed array `self.stack`, kept as its offset from the array's start
            Ty::RawPtr { inner, .. } if self.stack_mode() && matches!(&**inner, Ty::Path { name, .. } if name == "T") => LT::I("isize"),
            Ty::Slice(i) => LT::List(Box::new(self.conv(i))),
            Ty::Array(i, _) => LT::List(Box::new(self.conv(i))),
            Ty::Tuple(v) if v.is_empty() => LT::Unit,
            Ty::Tuple(v) => LT::Tup(v.iter().map(|x| self.conv(x)).collect()),
            Ty::Path { name, args } => {
                if let Some(i) = int_ty(name) {
                    return i;
                }
                match name.as_str() {
                    // the element type of `Stack<T, N>`: the interpreter's stacks hold values
                    "T" if self.stack_mode() => LT::Value,
                    "f64" => LT::F64,
                    "bool" => LT::Bool,
                    "Value" => LT::Value,
                    "str" | "String" => LT::Str,
                    "Error" => LT::ErrT,
                    "ExcHandler" => LT::Handler,
                    "Self" => match self.self_ty.clone() {
                        Some(s) => self.conv(&Ty::path(&s, vec![])),
                        None => LT::Opaque,
                    },
                    "Option" if args.len() == 1 => LT::Opt(Box::new(self.conv(&args[0]))),
                    "Result" if args.len() == 2 => LT::Res(Box::new(self.conv(&args[0])), Box::new(self.conv(&args[1]))),
                    "Vec" if args.len() == 1 => LT::List(Box::new(self.conv(&args[0]))),
                    n if TRANSPARENT.contains(&n) && args.len() == 1 => self.conv(&args[0]),
                    // a string object as the intern table sees it: its cached hash and its text (the class link is a reference to
                    // another object and identity is not a field; both are outside what the translated table functions read)
                    "ObjString" => {
                        if let Some(v) = self.db.structs.get("ObjString") {
                            if v.len() == 1 {
                                let have: Vec<String> = v[0].fields.iter().map(|(f, _)| f.clone()).collect();
                                if have.contains(&"hash".to_string()) && have.contains(&"string".to_string()) {
                                    return LT::Rec("ObjString".to_string(), vec![("hash".to_string(), LT::BV(64)), ("string".to_string(), LT::Str)]);
                                }
                            }
                        }
                        LT::Opaque
                    }
                    n => {
                        if RECORDS.contains(&n) {
                            if let Some(v) = self.db.structs.get(n) {
                                if v.len() == 1 {
                                    let sd = v[0].clone();
                                    let fields: Vec<(String, LT)> = sd.fields.iter().map(|(f, t)| (f.clone(), self.conv(t))).collect();
                                    if fields.len() >= 2 && fields.iter().all(|(_, t)| !matches!(t, LT::Struct(_) | LT::Opaque)) {
                                        return LT::Rec(n.to_string(), fields);
                                    }
                                }
                            }
                        }
                        if self.db.structs.contains_key(n) {
                            LT::Struct(n.to_string())
                        } else if let Some(es) = self.db.enums.get(n) {
                            if es.len() == 1 && es[0].variants.iter().all(|v| v.fields.is_empty()) {
                                self.enums_used.insert(n.to_string());
                                LT::Enum(n.to_string())
                            } else {
                                LT::Opaque
                            }
                        } else {
                            LT::Opaque
                        }
                    }
                }
            }
            _ => LT::Opaque,
        }
    }

    /// (field, type) of the fields of a struct that the translator models as values, in declaration order.
    fn scalar_fields(&mut self, name: &str) -> Vec<(String, LT)> {
        let sd = match self.db.structs.get(name) {
            Some(v) if v.len() == 1 => v[0].clone(),
            _ => return vec![],
        };
        let mut out = Vec::new();
        for (n, t) in &sd.fields {
            // only fields stored by value: a field behind Gc/Root/RefCell is a reference to another object
            if let Ty::Path { name: tn, args } = t {
                if args.is_empty() {
                    if let Some(lt) = int_ty(tn) {
                        out.push((n.clone(), lt));
                    } else if tn == "f64" {
                        out.push((n.clone(), LT::F64));
                    } else if tn == "bool" {
                        out.push((n.clone(), LT::Bool));
                    }
                }
            }
        }
        out
    }

    fn lookup(&self, name: &str) -> Option<Var> {
        for s in self.scopes.iter().rev() {
            if let Some(v) = s.get(name) {
                return Some(v.clone());
            }
        }
        None
    }

    fn declare(&mut self, name: &str, ty: LT) -> String {
        let lean = lean_ident(name);
        self.elem_aliases.remove(name);
        self.scopes.last_mut().unwrap().insert(name.to_string(), Var { lean: lean.clone(), ty });
        lean
    }

    /// Type of the place `self.<components…>` (fields and zero-argument accessor methods).
    fn place_type(&mut self, root: &str, comps: &[String]) -> R<Ty> {
        let mut cur = if root == "self" {
            match &self.self_ty {
                Some(s) => Ty::path(s, vec![]),
                None => return self.un("`self` used outside an impl"),
            }
        } else {
            match self.struct_params.get(root) {
                Some(t) => t.clone(),
                None => return self.un(format!("`{}` is not a place root", root)),
            }
        };
        for c in comps {
            // look through references and transparent wrappers
            loop {
                match &cur {
                    Ty::Ref(i) => cur = (**i).clone(),
                    Ty::Path { name, args } if TRANSPARENT.contains(&name.as_str()) && args.len() == 1 => cur = args[0].clone(),
                    _ => break,
                }
            }
            let head = match cur.head() {
                Some(h) => h.to_string(),
                None => return self.un(format!("cannot resolve `{}` in place path: base type {}", c, cur)),
            };
            if let Some(m) = c.strip_suffix("()") {
                let mut found = None;
                for im in &self.db.impls {
                    if im.self_ty.head() == Some(head.as_str()) {
                        for f in &im.fns {
                            if f.sig.ident == m {
                                if let syn::ReturnType::Type(_, t) = &f.sig.output {
                                    found = Some(convert_type(t));
                                }
                            }
                        }
                    }
                }
                match found {
                    Some(t) => {
                        self.accessors.insert(format!("{}::{}", head, m));
                        cur = t
                    }
                    None => return self.un(format!("accessor `{}::{}` not found or returns nothing", head, m)),
                }
            } else {
                let sd = match self.db.structs.get(&head) {
                    Some(v) if v.len() == 1 => v[0].clone(),
                    _ => return self.un(format!("struct `{}` not found (or ambiguous) while resolving field `{}`", head, c)),
                };
                match sd.fields.iter().find(|(n, _)| n == c) {
                    Some((_, t)) => cur = t.clone(),
                    None => return self.un(format!("struct `{}` has no field `{}`", head, c)),
                }
            }
        }
        Ok(cur)
    }

    /// The current Lean variable for a `self` place; an unread place becomes an input of the generated function.
    fn place(&mut self, path: &str) -> R<Var> {
        if self.vm_mode {
            if let Some((term, ty)) = vm_place(path) {
                return Ok(Var { lean: term.to_string(), ty });
            }
        }
        if let Some(v) = self.places.get(path) {
            return Ok(v.clone());
        }
        let comps: Vec<String> = path.split('.').skip(1).map(|s| s.to_string()).collect();
        let root = path.split('.').next().unwrap_or("self").to_string();
        let t = self.place_type(&root, &comps)?;
        let lt = self.conv(&t);
        if matches!(lt, LT::Struct(_) | LT::Opaque) && !comps.is_empty() {
            return self.un(format!("place `{}` of type {} is not a value the translator models", path, t));
        }
        let ver = self.epoch;
        let base = lean_ident(&path.replace("()", "").replace('.', "_"));
        let lean = if ver == 0 { base } else { format!("{}_{}", base, ver) };
        let note = if ver == 0 {
            format!("{} on entry", path)
        } else {
            format!("{} as read after opaque `&mut self` call #{}", path, ver)
        };
        // the same place read again in the same epoch (e.g. in the other branch of an `if`) is the same input
        if !self.inputs.iter().any(|i| i.0 == lean) {
            self.inputs.push((lean.clone(), lt.clone(), note));
        }
        let v = Var { lean, ty: lt };
        self.places.insert(path.to_string(), v.clone());
        Ok(v)
    }

    /// After a call that may mutate `self` in ways the translator does not see: every cached place is forgotten.
    fn invalidate_places(&mut self) {
        self.epoch += 1;
        self.hard_inval += 1;
        self.places.clear();
    }

    /// After an untranslated `&mut self` call whose body was checked (syntactically, on this run) to touch nothing but the chunk
    /// being written: only the places under the chunk are forgotten.
    fn invalidate_places_after(&mut self, callee: &str) {
        let method = callee.rsplit('.').next().unwrap_or("");
        if FOOTPRINT_CHUNK_ONLY.contains(&method) && self.body_mentions_only_chunk(method) {
            self.epoch += 1;
            self.hard_inval += 1;
            self.places.retain(|p, _| !p.contains("chunk"));
            return;
        }
        self.invalidate_places();
    }

    fn body_mentions_only_chunk(&self, method: &str) -> bool {
        let st = match &self.self_ty {
            Some(s) => s.clone(),
            None => return false,
        };
        for im in &self.db.impls {
            if im.self_ty.head() == Some(st.as_str()) {
                for f in &im.fns {
                    if f.sig.ident == method {
                        let text = compact(&toks(&f.block));
                        // nothing of the compiler's own state may be named; the only callee allowed is the chunk writer
                        let banned = ["locals", "upvalues", "scope_depth", "loop_stack", "break_stack", "compilers", "in_try_block", "lambda_count"];
                        return !banned.iter().any(|b| text.contains(b)) && text.contains("chunk");
                    }
                }
            }
        }
        false
    }

    /// The syntactic place an expression denotes (`self.a.b`, through aliases, borrows and derefs), if any.
    fn path_of(&self, e: &Expr) -> Option<String> {
        // `self.compilers.last().unwrap()` is what the accessor `compiler()` returns (its body is re-read on every run)
        if let Expr::MethodCall(u) = e {
            if u.method == "unwrap" && u.args.is_empty() {
                let t = compact(&toks(e));
                if (t == "self.compilers.last().unwrap()" || t == "self.compilers.last_mut().unwrap()") && self.accessor_body_is("compiler_mut", "self.compilers.last_mut().unwrap()") {
                    return Some("self.compiler()".into());
                }
            }
        }
        match e {
            Expr::Path(p) if p.path.segments.len() == 1 => {
                let n = p.path.segments[0].ident.to_string();
                if n == "self" {
                    Some("self".into())
                } else if self.struct_params.contains_key(&n) {
                    Some(n)
                } else if self.lookup(&n).is_none() {
                    self.aliases.get(&n).cloned()
                } else {
                    None
                }
            }
            Expr::Field(f) => {
                let base = self.path_of(&f.base)?;
                match &f.member {
                    syn::Member::Named(i) => Some(format!("{}.{}", base, i)),
                    syn::Member::Unnamed(i) => Some(format!("{}.{}", base, i.index)),
                }
            }
            Expr::Paren(p) => self.path_of(&p.expr),
            Expr::Group(p) => self.path_of(&p.expr),
            Expr::Reference(r) => self.path_of(&r.expr),
            Expr::Unary(u) if matches!(u.op, UnOp::Deref(_)) => self.path_of(&u.expr),
            Expr::MethodCall(m) if m.args.is_empty() => {
                let base = self.path_of(&m.receiver)?;
                let name = m.method.to_string();
                match name.as_str() {
                    "borrow" | "borrow_mut" | "as_ref" | "as_mut" | "get" | "as_gc" | "iter" => Some(base),
                    "len" | "is_none" | "is_some" | "is_empty" | "to_ne_bytes" | "trunc" | "unwrap" | "clone" | "enumerate" | "rev" => None,
                    _ => Some(format!("{}.{}()", base, name.strip_suffix("_mut").unwrap_or(&name))),
                }
            }
            _ => None,
        }
    }

    /// The body of `owner::method`, tokens without blanks, as the sources have it now.
    fn method_body_of(&self, owner: &str, method: &str) -> Option<String> {
        for im in &self.db.impls {
            if im.self_ty.head() == Some(owner) {
                for f in &im.fns {
                    if f.sig.ident == method {
                        return Some(compact(&toks(&f.block)));
                    }
                }
            }
        }
        None
    }

    fn accessor_body_is(&self, method: &str, body: &str) -> bool {
        let st = match &self.self_ty {
            Some(s) => s.clone(),
            None => return false,
        };
        for im in &self.db.impls {
            if im.self_ty.head() == Some(st.as_str()) {
                for f in &im.fns {
                    if f.sig.ident == method {
                        let text = compact(&toks(&f.block));
                        return text == format!("{{{}}}", body);
                    }
                }
            }
        }
        false
    }

    fn const_value(&self, name: &str) -> Option<i128> {
        self.consts.get(name).copied()
    }
}

/// The places of `Vm` that the abstract interpreter state `Rs.Vm` carries.
fn vm_place(path: &str) -> Option<(&'static str, LT)> {
    let p = path.replace("active_fiber_mut()", "active_fiber()").replace("current_frame_mut()", "current_frame()");
    // a method of ObjFiber sees its own fields directly
    let p = if p.starts_with("self.") && !p.starts_with("self.active_") && !p.starts_with("self.ip") && !p.starts_with("self.handling") && p != "self.fiber" && p != "self.unsafe_fiber" {
        format!("self.active_fiber().{}", &p[5..])
    } else {
        p
    };
    match p.as_str() {
        "self.ip" => Some(("vm_.ip", LT::I("isize"))),
        "self.handling_exception" => Some(("vm_.handling", LT::Bool)),
        "self.active_chunk.constants" => Some(("vm_.consts", LT::List(Box::new(LT::Value)))),
        "self.active_fiber().active_chunk.constants" => Some(("vm_.consts", LT::List(Box::new(LT::Value)))),
        "self.active_fiber().stack" => Some(("vm_.stack", LT::List(Box::new(LT::Value)))),
        "self.active_fiber().exc_handlers" => Some(("vm_.handlers", LT::List(Box::new(LT::Handler)))),
        "self.active_fiber().frames.len()" => Some(("vm_.frames", LT::I("usize"))),
        "self.active_fiber().return_ip" => Some(("vm_.returnIp", LT::Opt(Box::new(LT::I("isize"))))),
        "self.active_fiber().return_value" => Some(("vm_.returnValue", LT::Value)),
        "self.active_fiber().error_ip" => Some(("vm_.errorIp", LT::Opt(Box::new(LT::Tup(vec![LT::I("isize"), LT::I("usize")]))))),
        "self.active_fiber().current_frame().unwrap().slot_base" => Some(("vm_.slotBase", LT::I("usize"))),
        "self.active_fiber().current_frame().unwrap().ip" => Some(("vm_.frameIp", LT::I("isize"))),
        "self.fiber" => Some(("vm_.curId", LT::Opt(Box::new(LT::FiberId)))),
        "self.unsafe_fiber" => Some(("vm_.unsafeId", LT::Opt(Box::new(LT::FiberId)))),
        "self.active_fiber().caller" => Some(("vm_.caller", LT::Opt(Box::new(LT::FiberId)))),
        "self.active_fiber().handling_exception" => Some(("vm_.fiberHandling", LT::Bool)),
        "self.active_fiber().frames[0].closure" => Some(("vm_.closure0", LT::Value)),
        _ => None,
    }
}
