// ---- top level: which functions, signatures, emission ----------------------------------------------

pub const TARGETS: &[FnTarget] = &[
    FnTarget { file: "utils.rs", owner: None, name: "validate_integer", lean: "validate_integer", havoc: &[], ignore_cfg_features: &[] },
    FnTarget { file: "utils.rs", owner: None, name: "hash_number", lean: "hash_number", havoc: &[], ignore_cfg_features: &[] },
    FnTarget { file: "value.rs", owner: Some("Value"), name: "into_bool", lean: "into_bool", havoc: &[], ignore_cfg_features: &[] },
    FnTarget { file: "value.rs", owner: Some("Value"), name: "try_as_number", lean: "try_as_number", havoc: &[], ignore_cfg_features: &[] },
    FnTarget { file: "value.rs", owner: Some("Value"), name: "try_as_bounded_index", lean: "try_as_bounded_index", havoc: &[], ignore_cfg_features: &[] },
    FnTarget { file: "object.rs", owner: Some("ObjRange"), name: "make_bounded_range", lean: "make_bounded_range", havoc: &[], ignore_cfg_features: &[] },
    FnTarget { file: "object.rs", owner: Some("ObjRangeIter"), name: "new", lean: "range_iter_new", havoc: &[], ignore_cfg_features: &[] },
    FnTarget { file: "object.rs", owner: Some("ObjRangeIter"), name: "next", lean: "range_iter_next", havoc: &[], ignore_cfg_features: &[] },
    FnTarget { file: "object.rs", owner: Some("ObjVecIter"), name: "next", lean: "vec_iter_next", havoc: &[], ignore_cfg_features: &[] },
    FnTarget { file: "object.rs", owner: Some("ObjTupleIter"), name: "next", lean: "tuple_iter_next", havoc: &[], ignore_cfg_features: &[] },
    FnTarget { file: "hash.rs", owner: Some("FnvHasher"), name: "write", lean: "fnv_write", havoc: &[], ignore_cfg_features: &[] },
    FnTarget { file: "memory.rs", owner: Some("Heap"), name: "collect_if_required", lean: "collect_if_required", havoc: &[], ignore_cfg_features: &[] },
    FnTarget { file: "memory.rs", owner: Some("Heap"), name: "collect", lean: "collect", havoc: &[], ignore_cfg_features: &["debug_trace_gc"] },
    FnTarget {
        file: "memory.rs",
        owner: Some("Heap"),
        name: "allocate_raw",
        lean: "allocate_raw",
        havoc: &[("boxed", "opaque"), ("gc_box_ptr", "opaque"), ("size", "usize")],
        ignore_cfg_features: &["debug_trace_gc"],
    },
    FnTarget { file: "memory.rs", owner: Some("Heap"), name: "mark_roots", lean: "gc_mark_roots", havoc: &[], ignore_cfg_features: &["debug_trace_gc"] },
    FnTarget { file: "memory.rs", owner: Some("Heap"), name: "trace_references", lean: "gc_trace_references", havoc: &[], ignore_cfg_features: &["debug_trace_gc"] },
    FnTarget { file: "memory.rs", owner: Some("Heap"), name: "sweep", lean: "gc_sweep", havoc: &[], ignore_cfg_features: &["debug_trace_gc"] },
    FnTarget { file: "compiler.rs", owner: Some("Precedence"), name: "from", lean: "precedence_from", havoc: &[], ignore_cfg_features: &[] },
    FnTarget { file: "compiler.rs", owner: Some("Compiler"), name: "patch_jump", lean: "patch_jump", havoc: &[], ignore_cfg_features: &[] },
    FnTarget { file: "compiler.rs", owner: Some("Compiler"), name: "resolve_local", lean: "compiler_resolve_local", havoc: &[], ignore_cfg_features: &[] },
    FnTarget { file: "compiler.rs", owner: Some("Compiler"), name: "add_local", lean: "compiler_add_local", havoc: &[], ignore_cfg_features: &[] },
    FnTarget { file: "compiler.rs", owner: Some("Compiler"), name: "mark_initialised", lean: "compiler_mark_initialised", havoc: &[], ignore_cfg_features: &[] },
    FnTarget { file: "compiler.rs", owner: Some("Compiler"), name: "mark_last_initialised", lean: "compiler_mark_last_initialised", havoc: &[], ignore_cfg_features: &[] },
    FnTarget { file: "compiler.rs", owner: Some("Compiler"), name: "add_upvalue", lean: "compiler_add_upvalue", havoc: &[], ignore_cfg_features: &[] },
    FnTarget { file: "compiler.rs", owner: Some("Parser"), name: "declare_variable", lean: "declare_variable", havoc: &[], ignore_cfg_features: &[] },
    FnTarget { file: "compiler.rs", owner: Some("Parser"), name: "emit_scope_end", lean: "emit_scope_end", havoc: &[], ignore_cfg_features: &[] },
    FnTarget { file: "compiler.rs", owner: Some("Parser"), name: "emit_loop", lean: "emit_loop", havoc: &[], ignore_cfg_features: &[] },
    FnTarget { file: "compiler.rs", owner: Some("Parser"), name: "patch_offset_at", lean: "patch_offset_at", havoc: &[], ignore_cfg_features: &[] },
    FnTarget { file: "object.rs", owner: Some("ExcHandler"), name: "has_catch_block", lean: "handler_has_catch_block", havoc: &[], ignore_cfg_features: &[] },
    FnTarget { file: "object.rs", owner: Some("ObjFiber"), name: "push_exc_handler", lean: "fiber_push_exc_handler", havoc: &[], ignore_cfg_features: &[] },
    FnTarget { file: "object.rs", owner: Some("ObjFiber"), name: "pop_exc_handler", lean: "fiber_pop_exc_handler", havoc: &[], ignore_cfg_features: &[] },
    FnTarget { file: "object.rs", owner: Some("ObjFiber"), name: "take_return_data", lean: "fiber_take_return_data", havoc: &[], ignore_cfg_features: &[] },
    FnTarget { file: "object.rs", owner: Some("ObjFiber"), name: "record_error_site", lean: "fiber_record_error_site", havoc: &[], ignore_cfg_features: &[] },
    FnTarget { file: "vm.rs", owner: Some("Vm"), name: "unwind_stack", lean: "vm_unwind_stack", havoc: &[], ignore_cfg_features: &[] },
    FnTarget { file: "vm.rs", owner: Some("Vm"), name: "throw_impl", lean: "vm_throw_impl", havoc: &[], ignore_cfg_features: &[] },
    FnTarget { file: "vm.rs", owner: Some("Vm"), name: "push_exc_handler_impl", lean: "vm_push_exc_handler_impl", havoc: &[], ignore_cfg_features: &[] },
    FnTarget { file: "vm.rs", owner: Some("Vm"), name: "pop_exc_handler_impl", lean: "vm_pop_exc_handler_impl", havoc: &[], ignore_cfg_features: &[] },
    FnTarget { file: "vm.rs", owner: Some("Vm"), name: "jump_finally_impl", lean: "vm_jump_finally_impl", havoc: &[], ignore_cfg_features: &[] },
    FnTarget { file: "vm.rs", owner: Some("Vm"), name: "end_finally_impl", lean: "vm_end_finally_impl", havoc: &[], ignore_cfg_features: &[] },
    FnTarget { file: "vm.rs", owner: Some("Vm"), name: "read_constant", lean: "vm_read_constant", havoc: &[], ignore_cfg_features: &[] },
    FnTarget { file: "vm.rs", owner: Some("Vm"), name: "get_local_impl", lean: "vm_get_local_impl", havoc: &[], ignore_cfg_features: &[] },
    FnTarget { file: "vm.rs", owner: Some("Vm"), name: "set_local_impl", lean: "vm_set_local_impl", havoc: &[], ignore_cfg_features: &[] },
    FnTarget { file: "vm.rs", owner: Some("Vm"), name: "equal_impl", lean: "vm_equal_impl", havoc: &[], ignore_cfg_features: &[] },
    FnTarget { file: "vm.rs", owner: Some("Vm"), name: "binary_op_impl", lean: "vm_binary_op_impl", havoc: &[], ignore_cfg_features: &[] },
    FnTarget { file: "vm.rs", owner: Some("Vm"), name: "logical_not_impl", lean: "vm_logical_not_impl", havoc: &[], ignore_cfg_features: &[] },
    FnTarget { file: "vm.rs", owner: Some("Vm"), name: "bitwise_not_impl", lean: "vm_bitwise_not_impl", havoc: &[], ignore_cfg_features: &[] },
    FnTarget { file: "vm.rs", owner: Some("Vm"), name: "negate_impl", lean: "vm_negate_impl", havoc: &[], ignore_cfg_features: &[] },
    FnTarget { file: "vm.rs", owner: Some("Vm"), name: "jump_impl", lean: "vm_jump_impl", havoc: &[], ignore_cfg_features: &[] },
    FnTarget { file: "vm.rs", owner: Some("Vm"), name: "jump_if_false_impl", lean: "vm_jump_if_false_impl", havoc: &[], ignore_cfg_features: &[] },
    FnTarget { file: "vm.rs", owner: Some("Vm"), name: "loop_impl", lean: "vm_loop_impl", havoc: &[], ignore_cfg_features: &[] },
    FnTarget { file: "vm.rs", owner: None, name: "find_index", lean: "store_find_index", havoc: &[], ignore_cfg_features: &[] },
    FnTarget { file: "vm.rs", owner: Some("ObjStringStore"), name: "get", lean: "store_get", havoc: &[], ignore_cfg_features: &[] },
    FnTarget { file: "vm.rs", owner: Some("ObjStringStore"), name: "adjust_capacity", lean: "store_adjust_capacity", havoc: &[], ignore_cfg_features: &[] },
    FnTarget { file: "vm.rs", owner: Some("ObjStringStore"), name: "insert", lean: "store_insert", havoc: &[], ignore_cfg_features: &[] },
    FnTarget { file: "vm.rs", owner: Some("Vm"), name: "load_fiber", lean: "vm_load_fiber", havoc: &[], ignore_cfg_features: &[] },
    FnTarget { file: "vm.rs", owner: Some("Vm"), name: "unload_fiber", lean: "vm_unload_fiber", havoc: &[], ignore_cfg_features: &[] },
    FnTarget { file: "vm.rs", owner: Some("Vm"), name: "call_closure", lean: "vm_call_closure", havoc: &[], ignore_cfg_features: &[] },
    FnTarget { file: "vm.rs", owner: Some("Vm"), name: "return_impl", lean: "vm_return_impl", havoc: &[], ignore_cfg_features: &[] },
    FnTarget { file: "compiler.rs", owner: Some("Parser"), name: "emit_return", lean: "emit_return", havoc: &[], ignore_cfg_features: &[] },
    FnTarget { file: "compiler.rs", owner: Some("Parser"), name: "return_statement", lean: "return_statement", havoc: &[], ignore_cfg_features: &[] },
    FnTarget { file: "compiler.rs", owner: Some("Parser"), name: "break_statement", lean: "break_statement", havoc: &[], ignore_cfg_features: &[] },
    FnTarget { file: "compiler.rs", owner: Some("Parser"), name: "continue_statement", lean: "continue_statement", havoc: &[], ignore_cfg_features: &[] },
    FnTarget { file: "compiler.rs", owner: Some("Parser"), name: "try_statement", lean: "try_statement", havoc: &[], ignore_cfg_features: &[] },
    FnTarget { file: "compiler.rs", owner: Some("Parser"), name: "throw_statement", lean: "throw_statement", havoc: &[], ignore_cfg_features: &[] },
    FnTarget { file: "compiler.rs", owner: Some("Parser"), name: "while_statement", lean: "while_statement", havoc: &[], ignore_cfg_features: &[] },
    FnTarget { file: "compiler.rs", owner: Some("Parser"), name: "if_statement", lean: "if_statement", havoc: &[], ignore_cfg_features: &[] },
    FnTarget { file: "compiler.rs", owner: Some("Parser"), name: "for_statement", lean: "for_statement", havoc: &[], ignore_cfg_features: &[] },
    FnTarget { file: "compiler.rs", owner: Some("Parser"), name: "and", lean: "parse_and", havoc: &[], ignore_cfg_features: &[] },
    FnTarget { file: "compiler.rs", owner: Some("Parser"), name: "or", lean: "parse_or", havoc: &[], ignore_cfg_features: &[] },
    FnTarget { file: "compiler.rs", owner: Some("Parser"), name: "binary", lean: "parse_binary", havoc: &[], ignore_cfg_features: &[] },
    FnTarget { file: "compiler.rs", owner: Some("Parser"), name: "unary", lean: "parse_unary", havoc: &[], ignore_cfg_features: &[] },
    FnTarget { file: "compiler.rs", owner: Some("Parser"), name: "parse_precedence", lean: "parse_precedence", havoc: &[], ignore_cfg_features: &[] },
    FnTarget { file: "compiler.rs", owner: Some("Parser"), name: "var_declaration", lean: "var_declaration", havoc: &[], ignore_cfg_features: &[] },
    FnTarget { file: "compiler.rs", owner: Some("Parser"), name: "expression_statement", lean: "expression_statement", havoc: &[], ignore_cfg_features: &[] },
    FnTarget { file: "compiler.rs", owner: Some("Parser"), name: "end_scope", lean: "end_scope", havoc: &[], ignore_cfg_features: &[] },
    FnTarget { file: "compiler.rs", owner: Some("Parser"), name: "define_variable", lean: "define_variable", havoc: &[], ignore_cfg_features: &[] },
    FnTarget { file: "compiler.rs", owner: Some("Parser"), name: "dotdot", lean: "parse_dotdot", havoc: &[], ignore_cfg_features: &[] },
    FnTarget { file: "compiler.rs", owner: Some("Parser"), name: "block", lean: "parse_block", havoc: &[], ignore_cfg_features: &[] },
    FnTarget { file: "compiler.rs", owner: Some("Parser"), name: "begin_scope", lean: "begin_scope", havoc: &[], ignore_cfg_features: &[] },
    FnTarget { file: "stack.rs", owner: Some("Stack"), name: "len", lean: "stack_len", havoc: &[], ignore_cfg_features: &[] },
    FnTarget { file: "stack.rs", owner: Some("Stack"), name: "peek", lean: "stack_peek", havoc: &[], ignore_cfg_features: &[] },
    FnTarget { file: "stack.rs", owner: Some("Stack"), name: "peek_mut", lean: "stack_peek_mut", havoc: &[], ignore_cfg_features: &[] },
    FnTarget { file: "stack.rs", owner: Some("Stack"), name: "push", lean: "stack_push", havoc: &[], ignore_cfg_features: &[] },
    FnTarget { file: "stack.rs", owner: Some("Stack"), name: "pop", lean: "stack_pop", havoc: &[], ignore_cfg_features: &[] },
    FnTarget { file: "stack.rs", owner: Some("Stack"), name: "truncate", lean: "stack_truncate", havoc: &[], ignore_cfg_features: &[] },
    FnTarget { file: "stack.rs", owner: Some("Stack"), name: "clear", lean: "stack_clear", havoc: &[], ignore_cfg_features: &[] },
];

/// the methods of `Heap` translated over the heap of boxes
const GC_PASSES: [&str; 3] = ["mark_roots", "trace_references", "sweep"];

pub struct FnBodies {
    pub text: String,
    pub names: Vec<String>,
    pub failed: Vec<(String, String)>,
}

enum Found<'a> {
    Impl(&'a syn::ImplItemFn, String),
    Free(&'a syn::ItemFn),
}

fn find_free<'a>(items: &'a [syn::Item], name: &str) -> Option<&'a syn::ItemFn> {
    for i in items {
        match i {
            syn::Item::Fn(f) if f.sig.ident == name => return Some(f),
            syn::Item::Mod(m) => {
                if let Some((_, its)) = &m.content {
                    if let Some(f) = find_free(its, name) {
                        return Some(f);
                    }
                }
            }
            _ => {}
        }
    }
    None
}

fn find_target<'a>(srcs: &'a [Src], db: &'a TypeDb, t: &FnTarget) -> R<Found<'a>> {
    match t.owner {
        None => {
            let src = srcs.iter().find(|s| s.name == t.file);
            match src.and_then(|s| find_free(&s.ast.items, t.name)) {
                Some(f) => Ok(Found::Free(f)),
                None => unsup(t.file, t.name, "function to translate not found"),
            }
        }
        Some(owner) => {
            let mut hits = Vec::new();
            for im in &db.impls {
                if im.file == t.file && im.self_ty.head() == Some(owner) {
                    for f in &im.fns {
                        if f.sig.ident == t.name {
                            hits.push((f, owner.to_string()));
                        }
                    }
                }
            }
            if hits.len() != 1 {
                return unsup(t.file, &format!("{}::{}", owner, t.name), format!("{} definitions found (expected 1)", hits.len()));
            }
            let (f, o) = hits.pop().unwrap();
            Ok(Found::Impl(f, o))
        }
    }
}

fn enum_decl(db: &TypeDb, name: &str) -> String {
    let e = &db.enums[name][0];
    let mut s = format!("\ninductive {}\n", name);
    for v in &e.variants {
        s.push_str(&format!("  | {}\n", lean_ident(&v.name)));
    }
    s.push_str("deriving DecidableEq, Repr\n");
    s.push_str(&format!("\n/-- `{} as usize` (declaration order; no explicit discriminants). -/\ndef {}.discr : {} → Int\n", name, name, name));
    for (k, v) in e.variants.iter().enumerate() {
        s.push_str(&format!("  | .{} => {}\n", lean_ident(&v.name), k));
    }
    s.push_str(&format!("\ndef {}.name : {} → String\n", name, name));
    for v in &e.variants {
        s.push_str(&format!("  | .{} => {}\n", lean_ident(&v.name), lean_str(&v.name)));
    }
    s
}


struct Acc {
    callees: BTreeMap<String, Sig>,
    defs: String,
    enums: BTreeSet<String>,
    names: Vec<String>,
    accessors: BTreeSet<String>,
}

fn translate_one(srcs: &[Src], db: &TypeDb, consts: &BTreeMap<String, i128>, t: &FnTarget, acc: &mut Acc) -> R<()> {
        let found = find_target(srcs, db, t)?;
        let (sig, block, owner) = match &found {
            Found::Impl(f, o) => (&f.sig, &f.block, Some(o.clone())),
            Found::Free(f) => (&f.sig, &*f.block, None),
        };
        let item = match &owner {
            Some(o) => format!("{}::{}", o, t.name),
            None => t.name.to_string(),
        };
        // an associated function of the parser whose first parameter is `s: &mut Parser`: its body is read with `s` renamed to `self`
        let parser_as_s = owner.as_deref() == Some("Parser")
            && matches!(sig.inputs.first(), Some(syn::FnArg::Typed(pt)) if compact(&toks(&*pt.pat)) == "s" && compact(&toks(&*pt.ty)).replace(" ", "") == "&mutParser");
        let renamed_block;
        let block: &syn::Block = if parser_as_s {
            struct Rename;
            impl syn::visit_mut::VisitMut for Rename {
                fn visit_ident_mut(&mut self, i: &mut syn::Ident) {
                    if i == "s" {
                        *i = syn::Ident::new("self", i.span());
                    }
                }
            }
            let mut b = block.clone();
            syn::visit_mut::VisitMut::visit_block_mut(&mut Rename, &mut b);
            renamed_block = b;
            &renamed_block
        } else {
            block
        };
        let callee_snapshot = acc.callees.clone();
        let mut cx = Cx {
            db,
            srcs,
            consts,
            file: t.file.to_string(),
            item: item.clone(),
            self_ty: owner.clone(),
            scopes: vec![BTreeMap::new()],
            aliases: BTreeMap::new(),
            places: BTreeMap::new(),
            place_version: BTreeMap::new(),
            inputs: Vec::new(),
            written: Vec::new(),
            has_effects: false,
            fresh: 0,
            ret_ty: LT::Unit,
            havoc: t.havoc.iter().map(|(a, b)| (a.to_string(), b.to_string())).collect(),
            ignore_cfg_features: t.ignore_cfg_features.iter().map(|s| s.to_string()).collect(),
            cfg_inputs: Vec::new(),
            enums_used: BTreeSet::new(),
            callees: &callee_snapshot,
            accessors: BTreeSet::new(),
            loop_fuel: false,
            loop_depth: 0,
            for_konts: Vec::new(),
            cont_konts: Vec::new(),
            elem_aliases: BTreeMap::new(),
            hard_inval: 0,
            epoch: 0,
            struct_params: BTreeMap::new(),
            vm_mode: matches!(owner.as_deref(), Some("Vm") | Some("ObjFiber")) || (owner.as_deref() == Some("Heap") && GC_PASSES.contains(&t.name)),
            fiber_mode: owner.as_deref() == Some("ObjFiber"),
            gc_mode: owner.as_deref() == Some("Heap") && GC_PASSES.contains(&t.name),
        };
        let _ = cx.srcs;
        // enum-valued `impl From<usize> for Precedence`: the self type is the enum
        if sig.generics.params.iter().any(|p| matches!(p, syn::GenericParam::Type(_))) && t.havoc.is_empty() {
            return unsup(t.file, &item, "generic function without havoc'd allocations");
        }
        let mut doc_extra = String::new();
        cx.ret_ty = match &sig.output {
            syn::ReturnType::Default => LT::Unit,
            syn::ReturnType::Type(_, ty) => cx.syn_ty(ty),
        };
        if let LT::Struct(sn) = cx.ret_ty.clone() {
            // a constructor: the answer is the tuple of the struct's scalar fields, in declaration order
            let fields = cx.scalar_fields(&sn);
            if fields.is_empty() {
                cx.ret_ty = LT::Opaque;
            } else {
                doc_extra = format!("  answers the scalar fields of `{}`: ({})\n", sn, fields.iter().map(|f| f.0.clone()).collect::<Vec<_>>().join(", "));
                cx.ret_ty = if fields.len() == 1 { fields[0].1.clone() } else { LT::Tup(fields.iter().map(|f| f.1.clone()).collect()) };
            }
        }
        // parameters
        let mut params: Vec<(String, LT)> = Vec::new();
        let mut rust_params: Vec<(String, bool)> = Vec::new();
        for a in &sig.inputs {
            match a {
                syn::FnArg::Receiver(_) => {}
                syn::FnArg::Typed(pt) => {
                    let (n, _) = cx.simple_pat(&pt.pat)?;
                    let mut ty = cx.syn_ty(&pt.ty);
                    if compact(&toks(&*pt.ty)) == "fn(f64,f64)->Value" {
                        ty = LT::OpFn;
                    }
                    if cx.vm_mode && ty == LT::Struct("ObjFiber".to_string()) {
                        // a fiber handed to a method of the interpreter: the number that names it
                        ty = LT::FiberId;
                    }
                    if cx.vm_mode && ty == LT::Struct("ObjClosure".to_string()) {
                        // a closure handed to the call mechanism: (slots its function reserves, first instruction, the closure as a value)
                        ty = LT::ClosureRec;
                    }
                    if n == "s" && parser_as_s {
                        // `fn binary(s: &mut Parser, ..)`: the parse functions of the rule table take the parser as `s` (read as `self`)
                        continue;
                    }
                    if matches!(ty, LT::Struct(_)) {
                        // an object parameter: its fields are read as places `<param>.<field>` (inputs of the Lean function)
                        cx.struct_params.insert(n.clone(), convert_type(&pt.ty));
                        rust_params.push((n.clone(), true));
                        continue;
                    }
                    if ty == LT::Opaque {
                        // an opaque parameter (e.g. the generic `data: T`) may only be passed on to opaque calls
                        continue;
                    }
                    let lean = cx.declare(&n, ty.clone());
                    rust_params.push((n.clone(), false));
                    params.push((lean, ty));
                }
            }
        }
        // pre-pass: places written anywhere in the body (direct `self.…` targets)
        let scan = scan_block(block);
        for tgt in &scan.assigned {
            if cx.stack_mode() {
                if let Expr::Unary(u) = tgt {
                    if matches!(u.op, UnOp::Deref(_)) {
                        if !cx.written.contains(&"self.stack".to_string()) {
                            cx.written.push("self.stack".to_string());
                        }
                        continue;
                    }
                }
            }
            let base = match tgt {
                Expr::Index(ix) => &*ix.expr,
                other => match rec_elem_target(other) {
                    Some((l, _, _)) => l,
                    None => other,
                },
            };
            if let Some(p) = cx.path_of(base) {
                if cx.vm_mode && vm_place(&p).is_some() {
                    continue;
                }
                if p.starts_with("self") && !cx.written.contains(&p) {
                    cx.written.push(p);
                }
            }
        }
        for (recv, m) in &scan.place_calls {
            for p in cx.places_written_through(recv, m) {
                if !cx.written.contains(&p) {
                    cx.written.push(p);
                }
            }
        }
        for tgt in &scan.pushed {
            if let Some(p) = cx.path_of(tgt) {
                if p.starts_with("self") && !(cx.vm_mode && vm_place(&p).is_some()) && !cx.written.contains(&p) {
                    let comps: Vec<String> = p.split('.').skip(1).map(|s| s.to_string()).collect();
                    if let Ok(t) = cx.place_type("self", &comps) {
                        if let LT::List(et) = cx.conv(&t) {
                            if matches!(*et, LT::Rec(..) | LT::BV(_) | LT::I(_) | LT::Bool | LT::Str | LT::Value) {
                                cx.written.push(p);
                            }
                        }
                    }
                }
            }
        }
        for w in cx.written.clone() {
            cx.place(&w)?;
        }
        // does the body make opaque statement calls?  decided by a dry run, then the real run
        let body = {
            let snapshot = (cx.inputs.clone(), cx.places.clone(), cx.scopes.clone());
            let first = cx.block(&block.stmts, &Kont::Return)?;
            if cx.has_effects {
                cx.inputs = snapshot.0;
                cx.places = snapshot.1;
                cx.scopes = snapshot.2;
                cx.place_version.clear();
                cx.epoch = 0;
                cx.aliases.clear();
                cx.cfg_inputs.clear();
                cx.fresh = 0;
                cx.block(&block.stmts, &Kont::Return)?
            } else {
                first
            }
        };
        // signature
        let mut out_tys = vec![cx.ret_ty.clone()];
        if cx.ret_ty == LT::Opaque {
            out_tys[0] = LT::Unit;
        }
        for w in &cx.written.clone() {
            let comps: Vec<String> = w.split('.').skip(1).map(|s| s.to_string()).collect();
            let ty = cx.place_type("self", &comps)?;
            out_tys.push(cx.conv(&ty));
        }
        let mut out_ty = out_tys.iter().map(|t| t.lean()).collect::<Vec<_>>();
        if cx.has_effects {
            out_ty.push("(List Rs.Eff)".into());
        }
        if cx.vm_mode {
            out_ty.push(if cx.gc_mode { "Rs.GcHeap".into() } else { "Rs.Vm".into() });
        }
        let out_text = if out_ty.len() == 1 { out_ty[0].clone() } else { format!("({})", out_ty.join(" × ")) };
        let mut sigtext = String::new();
        let mut doc = format!("/-- `{}` of {} (translated by xlate).\n", item, t.file);
        if cx.loop_fuel {
            sigtext.push_str(" (fuel_ : Nat)");
            doc.push_str("  fuel_ : bound on the iterations of the `loop` (running out is a panic of the MODEL, to be excluded by a theorem)\n");
        }
        for (n, ty) in &params {
            sigtext.push_str(&format!(" ({} : {})", n, ty.lean()));
        }
        for (n, ty, note) in &cx.inputs {
            sigtext.push_str(&format!(" ({} : {})", n, ty.lean()));
            doc.push_str(&format!("  {} : {}\n", n, note));
        }
        if cx.vm_mode {
            sigtext.push_str(if cx.gc_mode { " (vm_ : Rs.GcHeap)" } else { " (vm_ : Rs.Vm)" });
            if cx.gc_mode {
                doc.push_str("  vm_ : `self.objects`, the heap of boxes (Rs.GcHeap: the boxes, their colour cells, which of them the vector holds); answers (return value, heap afterwards)\n");
            } else {
                doc.push_str("  vm_ : the interpreter state the method runs on (operand stack, ip, constants, frame base); answers (return value, state afterwards)\n");
            }
        }
        for (n, text) in &cx.cfg_inputs {
            sigtext.push_str(&format!(" ({} : Bool)", n));
            doc.push_str(&format!("  {} : cfg!({})\n", n, text));
        }
        if !cx.written.is_empty() || cx.has_effects {
            doc.push_str(&format!(
                "  answers (return value{}{})\n",
                cx.written.iter().map(|w| format!(", {} on exit", w)).collect::<String>(),
                if cx.has_effects { ", opaque calls made, in order" } else { "" }
            ));
        }
        doc.push_str(&doc_extra);
        doc.push_str("-/\n");
        let eff_init = if cx.has_effects { "let effs_ : List Rs.Eff := [];\n  " } else { "" };
        acc.defs.push_str(&format!("\n{}def {}{} : Rs.M {} :=\n  {}{}\n", doc, t.lean, sigtext, out_text, eff_init, body));
        let plain = cx.inputs.is_empty() && cx.written.is_empty() && !cx.has_effects && cx.cfg_inputs.is_empty() && !cx.loop_fuel && !cx.vm_mode;
        let fuel_plain = cx.inputs.is_empty() && cx.written.is_empty() && !cx.has_effects && cx.cfg_inputs.is_empty() && cx.loop_fuel && !cx.vm_mode;
        let self_only = cx.inputs.len() == 1 && cx.inputs[0].0 == "self" && cx.written.is_empty() && !cx.has_effects && cx.cfg_inputs.is_empty() && !cx.loop_fuel && !cx.vm_mode;
        let key = match owner.as_deref() {
            Some("ObjFiber") => format!("fiber::{}", t.name),
            Some("ExcHandler") => format!("handler::{}", t.name),
            _ => t.name.to_string(),
        };
        let self_paths: Vec<String> = cx.inputs.iter().map(|i| i.2.trim_end_matches(" on entry").to_string()).filter(|p| p.starts_with("self.")).collect();
        let place_ins: Vec<(String, LT)> = cx.inputs.iter().map(|i| (i.2.trim_end_matches(" on entry").to_string(), i.1.clone())).collect();
        let simple = !cx.has_effects && cx.cfg_inputs.is_empty() && !cx.loop_fuel && !cx.vm_mode && cx.inputs.iter().all(|i| i.2.ends_with(" on entry"));
        let simple_fuel = !cx.has_effects && cx.cfg_inputs.is_empty() && cx.loop_fuel && !cx.vm_mode && cx.inputs.iter().all(|i| i.2.ends_with(" on entry"));
        let sigv = Sig {
            lean: t.lean.to_string(),
            params: params.iter().map(|p| p.1.clone()).collect(),
            ret: cx.ret_ty.clone(),
            plain,
            fuel_plain,
            self_only,
            self_paths,
            owner: owner.clone(),
            rust_params,
            place_ins,
            written: cx.written.clone(),
            simple,
            simple_fuel,
        };
        if let Some(o) = &owner {
            acc.callees.insert(format!("{}::{}", o, t.name), sigv.clone());
        }
        acc.callees.insert(key, sigv);
        acc.enums.extend(cx.enums_used.iter().cloned());
        acc.accessors.extend(cx.accessors.iter().cloned());
        acc.names.push(t.lean.to_string());
        Ok(())
}

/// The opcode dispatch of `Vm::run`: one `(opcode, what the arm does)` entry per match arm `byte if byte == OpCode::X as u8 => …`,
/// and a Lean function `op_X (a b : UInt64)` for every arm that passes a closure over two numbers to `binary_op_impl`.
fn dispatch(srcs: &[Src], db: &TypeDb, consts: &BTreeMap<String, i128>, acc: &mut Acc, failed: &mut Vec<(String, String)>) -> R<String> {
    let run = db
        .impls
        .iter()
        .filter(|im| im.file == "vm.rs" && im.self_ty.head() == Some("Vm"))
        .flat_map(|im| im.fns.iter())
        .find(|f| f.sig.ident == "run");
    let run = match run {
        Some(r) => r,
        None => return unsup("vm.rs", "Vm::run", "function not found"),
    };
    struct Finder<'x> {
        arms: Vec<&'x syn::Arm>,
    }
    impl<'ast> syn::visit::Visit<'ast> for Finder<'ast> {
        fn visit_expr_match(&mut self, m: &'ast syn::ExprMatch) {
            let guarded = m.arms.iter().filter(|a| a.guard.is_some()).count();
            if guarded >= 10 && self.arms.is_empty() {
                self.arms = m.arms.iter().collect();
                return;
            }
            syn::visit::visit_expr_match(self, m);
        }
    }
    let mut f = Finder { arms: vec![] };
    syn::visit::Visit::visit_block(&mut f, &run.block);
    if f.arms.is_empty() {
        return unsup("vm.rs", "Vm::run", "the opcode dispatch `match` (arms `byte if byte == OpCode::X as u8`) was not found");
    }
    let mut entries: Vec<(String, String)> = Vec::new();
    let mut defs = String::new();
    for a in f.arms {
        let guard = match &a.guard {
            Some((_, g)) => compact(&toks(&**g)),
            None => {
                entries.push(("_".into(), compact(&toks(&*a.body))));
                continue;
            }
        };
        // byte==OpCode::X as u8
        let op = match guard.strip_prefix("byte==OpCode::").and_then(|r| r.strip_suffix("as u8")) {
            Some(x) => x.trim().to_string(),
            None => return unsup("vm.rs", "Vm::run", format!("dispatch arm guard `{}` is not `byte == OpCode::X as u8`", guard)),
        };
        // what the arm does: `self.h(args)` possibly followed by `?`, possibly the only statement of a block
        let mut body: &Expr = &a.body;
        loop {
            match body {
                Expr::Block(b) if b.block.stmts.len() == 1 => match &b.block.stmts[0] {
                    Stmt::Expr(e, _) => body = e,
                    _ => break,
                },
                Expr::Try(t) => body = &t.expr,
                Expr::Paren(p) => body = &p.expr,
                _ => break,
            }
        }
        let mut what = truncate_chars(&compact(&toks(body)), 160);
        if let Expr::MethodCall(mc) = body {
            if toks(&*mc.receiver) == "self" {
                what = format!("self.{}", mc.method);
                if !mc.args.is_empty() && mc.method != "binary_op_impl" {
                    what = truncate_chars(&compact(&toks(body)), 160);
                }
                if mc.method == "binary_op_impl" && mc.args.len() == 1 {
                    if let Expr::Closure(c) = &mc.args[0] {
                        let lean = format!("op_{}", op);
                        what = format!("self.binary_op_impl(Fns.{})", lean);
                        let callee_snapshot = acc.callees.clone();
                        let r: R<String> = (|| {
                            let mut cx = new_cx(srcs, db, consts, "vm.rs", &format!("Vm::run arm {}", op), Some("Vm".to_string()), &callee_snapshot);
                            cx.ret_ty = LT::Value;
                            if c.inputs.len() != 2 {
                                return cx.un("closure passed to binary_op_impl does not take two parameters");
                            }
                            let mut names = Vec::new();
                            for p in c.inputs.iter() {
                                let (n, _) = cx.simple_pat(p)?;
                                names.push(cx.declare(&n, LT::F64));
                            }
                            let tx = cx.expr(&c.body, Some(&LT::Value))?;
                            if tx.ty != LT::Value {
                                return cx.un("closure passed to binary_op_impl does not yield a Value");
                            }
                            if !cx.inputs.is_empty() {
                                return cx.un("closure passed to binary_op_impl reads interpreter state");
                            }
                            Ok(format!(
                                "\n/-- the closure `Vm::run` passes to `binary_op_impl` for `OpCode::{}`: `{}` -/\ndef {} ({} : UInt64) ({} : UInt64) : Rs.M Rs.Value :=\n  {}\n",
                                op,
                                truncate_chars(&compact(&toks(&mc.args[0])), 120),
                                lean,
                                names[0],
                                names[1],
                                wrap_pre(&tx.pre, format!("(Rs.M.ok {})", tx.term))
                            ))
                        })();
                        match r {
                            Ok(d) => {
                                defs.push_str(&d);
                                acc.names.push(lean);
                            }
                            Err(u) => {
                                defs.push_str(&format!("\n-- UNTRANSLATED {} ({}: {}): {}\n", lean, u.file, u.item, u.why.replace('\n', " ")));
                                failed.push((lean, format!("{}:{}: {}", u.file, u.item, u.why)));
                            }
                        }
                    }
                }
            }
        }
        // an arm that does its work inline (`self.push(Value::None)`, `{ let top = self.peek(0); self.push(top); }`, `self.pop()`):
        // translated over the abstract interpreter state like the `*_impl` handlers
        let inline = !matches!(body, Expr::MethodCall(mc) if toks(&*mc.receiver) == "self" && mc.method.to_string().ends_with("_impl"))
            && !matches!(body, Expr::If(_))
            && !what.starts_with("self.jump_if_stop_iter");
        if inline {
            let stmts: Vec<Stmt> = match &*a.body {
                Expr::Block(b) => b.block.stmts.clone(),
                other => vec![Stmt::Expr(other.clone(), Some(Default::default()))],
            };
            let callee_snapshot = acc.callees.clone();
            let lean = format!("vm_arm_{}", op);
            let r: R<String> = (|| {
                let mut cx = new_cx(srcs, db, consts, "vm.rs", &format!("Vm::run arm {}", op), Some("Vm".to_string()), &callee_snapshot);
                cx.vm_mode = true;
                cx.ret_ty = LT::Unit;
                let mut stmts = stmts.clone();
                // the value of a trailing expression statement (e.g. what `self.pop()` returns) is discarded by the dispatch loop
                if let Some(Stmt::Expr(_, semi @ None)) = stmts.last_mut() {
                    *semi = Some(Default::default());
                }
                let body = cx.block(&stmts, &Kont::Return)?;
                if !cx.inputs.is_empty() || cx.has_effects || !cx.cfg_inputs.is_empty() {
                    return cx.un("inline dispatch arm reads state outside the abstract interpreter state");
                }
                Ok(format!(
                    "\n/-- the arm of `Vm::run` for `OpCode::{}`, which works inline: `{}` -/\ndef {} (vm_ : Rs.Vm) : Rs.M (Unit × Rs.Vm) :=\n  {}\n",
                    op,
                    truncate_chars(&compact(&toks(&*a.body)), 120),
                    lean,
                    body
                ))
            })();
            match r {
                Ok(d) => {
                    defs.push_str(&d);
                    acc.names.push(lean);
                }
                Err(u) => {
                    defs.push_str(&format!("\n-- UNTRANSLATED {} ({}: {}): {}\n", lean, u.file, u.item, u.why.replace('\n', " ")));
                    failed.push((lean, format!("{}:{}: {}", u.file, u.item, u.why)));
                }
            }
        }
        entries.push((op, what));
    }
    let mut out = defs;
    out.push_str("\n/-- The opcode dispatch of `Vm::run`, arm by arm, in source order: (opcode, what the arm does). -/\ndef runDispatch : List (String × String) :=\n");
    for (k, (o, w)) in entries.iter().enumerate() {
        out.push_str(&format!("  {} ({}, {})\n", if k == 0 { "[" } else { "," }, lean_str(o), lean_str(w)));
    }
    out.push_str("  ]\n");
    Ok(out)
}

fn new_cx<'a>(
    srcs: &'a [Src],
    db: &'a TypeDb,
    consts: &'a BTreeMap<String, i128>,
    file: &str,
    item: &str,
    self_ty: Option<String>,
    callees: &'a BTreeMap<String, Sig>,
) -> Cx<'a> {
    Cx {
        db,
        srcs,
        consts,
        file: file.to_string(),
        item: item.to_string(),
        self_ty,
        scopes: vec![BTreeMap::new()],
        aliases: BTreeMap::new(),
        places: BTreeMap::new(),
        place_version: BTreeMap::new(),
        inputs: Vec::new(),
        written: Vec::new(),
        has_effects: false,
        fresh: 0,
        ret_ty: LT::Unit,
        havoc: BTreeMap::new(),
        ignore_cfg_features: Vec::new(),
        cfg_inputs: Vec::new(),
        enums_used: BTreeSet::new(),
        callees,
        accessors: BTreeSet::new(),
        loop_fuel: false,
        loop_depth: 0,
        for_konts: Vec::new(),
        cont_konts: Vec::new(),
        elem_aliases: BTreeMap::new(),
        hard_inval: 0,
        epoch: 0,
        struct_params: BTreeMap::new(),
        vm_mode: false,
        fiber_mode: false,
        gc_mode: false,
    }
}

/// `RULES[kind as usize].precedence` as a function of the token kind (entry i of the array literal belongs to variant i of TokenKind).
fn rule_precedence_table(srcs: &[Src], db: &TypeDb) -> R<String> {
    let src = match srcs.iter().find(|s| s.name == "compiler.rs") {
        Some(s) => s,
        None => return unsup("compiler.rs", "const RULES", "file not found"),
    };
    let c = src.ast.items.iter().find_map(|it| match it {
        syn::Item::Const(c) if c.ident == "RULES" => Some(c),
        _ => None,
    });
    let elems = match c.map(|c| &*c.expr) {
        Some(Expr::Array(a)) => &a.elems,
        _ => return unsup("compiler.rs", "const RULES", "not an array literal"),
    };
    let kinds = match db.enums.get("TokenKind") {
        Some(v) if v.len() == 1 => &v[0].variants,
        _ => return unsup("scanner.rs", "TokenKind", "enum not found"),
    };
    if kinds.len() != elems.len() {
        return unsup("compiler.rs", "const RULES", "length differs from the number of token kinds");
    }
    let mut out = String::from("\n/-- `RULES[kind as usize].precedence` (compiler.rs), entry by entry. -/\ndef rule_precedence : TokenKind → Precedence\n");
    for (k, e) in kinds.iter().zip(elems.iter()) {
        let prec = match e {
            Expr::Struct(st) => st.fields.iter().find_map(|f| match (&f.member, &f.expr) {
                (syn::Member::Named(n), Expr::Path(p)) if n == "precedence" => p.path.segments.last().map(|s| s.ident.to_string()),
                _ => None,
            }),
            _ => None,
        };
        match prec {
            Some(p) => out.push_str(&format!("  | .{} => .{}\n", lean_ident(&k.name), lean_ident(&p))),
            None => return unsup("compiler.rs", "const RULES", "entry without a `precedence: Precedence::X` field"),
        }
    }
    Ok(out)
}

pub fn translate(srcs: &[Src], db: &TypeDb, limits: &crate::tables::Limits) -> R<FnBodies> {
    let mut consts: BTreeMap<String, i128> = BTreeMap::new();
    for (n, v, _) in &limits.entries {
        consts.insert(n.clone(), *v);
    }
    let mut acc = Acc { callees: BTreeMap::new(), defs: String::new(), enums: BTreeSet::new(), names: Vec::new(), accessors: BTreeSet::new() };
    let mut failed: Vec<(String, String)> = Vec::new();
    for t in TARGETS {
        if let Err(u) = translate_one(srcs, db, &consts, t, &mut acc) {
            // a function that left the translated subset is reported by name: the ties of THAT function stop checking
            acc.defs.push_str(&format!("\n-- UNTRANSLATED {} ({}: {}): {}\n", t.lean, u.file, u.item, u.why.replace('\n', " ")));
            failed.push((t.lean.to_string(), format!("{}:{}: {}", u.file, u.item, u.why)));
        }
    }
    let disp = match dispatch(srcs, db, &consts, &mut acc, &mut failed) {
        Ok(d) => d,
        Err(u) => {
            failed.push(("runDispatch".to_string(), format!("{}:{}: {}", u.file, u.item, u.why)));
            format!("\n-- UNTRANSLATED runDispatch ({}: {}): {}\n", u.file, u.item, u.why)
        }
    };
    acc.defs.push_str(&disp);
    let Acc { defs, enums, names, accessors, .. } = acc;
    let mut text = String::new();
    text.push_str(LEAN_HEADER);
    text.push_str("\n-- Table I: bodies of selected functions, translated statement by statement (xlate/src/fnbody*.rs);\n");
    text.push_str("-- the meaning of every `Rs.*` operation is fixed in Yarel/Model/RustSem.lean.\n");
    text.push_str(&format!(
        "-- Zero-argument methods treated as pure accessors of a place: {}\n",
        if accessors.is_empty() { "none".to_string() } else { accessors.iter().cloned().collect::<Vec<_>>().join(", ") }
    ));
    text.push_str("import Yarel.Model.RustSem\nimport Yarel.Model.RustSemGc\n\nnamespace Yarel.Gen.Fns\nopen Yarel\nset_option linter.unusedVariables false\n");
    for e in &enums {
        if !e.starts_with('@') {
            text.push_str(&enum_decl(db, e));
        }
    }
    if enums.contains("@rule_precedence") {
        text.push_str(&rule_precedence_table(srcs, db)?);
    }
    text.push_str(&defs);
    text.push_str(&format!(
        "\ndef translated : List String := [{}]\n\nend Yarel.Gen.Fns\n",
        names.iter().map(|n| lean_str(n)).collect::<Vec<_>>().join(", ")
    ));
    Ok(FnBodies { text, names, failed })
}
