//! Shared infrastructure: error type, source loading, cfg stripping, JSON / Lean writers,
//! function-context naming and token pretty printing.

use proc_macro2::{TokenStream, TokenTree};
use quote::ToTokens;
use std::collections::BTreeMap;
use std::fmt::Write as _;
use syn::punctuated::Punctuated;
use syn::visit::Visit;
use syn::visit_mut::VisitMut;
use syn::{Attribute, Expr, Item, Meta, Stmt, Token};

// ---------------------------------------------------------------------------------------------
// Errors

#[derive(Debug, Clone)]
pub struct Unsupported {
    pub file: String,
    pub item: String,
    pub why: String,
}

pub type R<T> = Result<T, Unsupported>;

pub fn unsup<T>(file: &str, item: &str, why: impl Into<String>) -> R<T> {
    Err(Unsupported {
        file: file.to_string(),
        item: item.to_string(),
        why: why.into(),
    })
}

// ---------------------------------------------------------------------------------------------
// Sources

pub struct Src {
    /// File name relative to the source dir, e.g. "vm.rs".
    pub name: String,
    pub text: String,
    pub ast: syn::File,
}

// ---------------------------------------------------------------------------------------------
// cfg predicates

#[derive(Debug, Clone)]
pub enum Pred {
    Feature(String),
    Flag(String),
    KeyVal(String, String),
    All(Vec<Pred>),
    Any(Vec<Pred>),
    Not(Box<Pred>),
}

pub fn parse_pred_meta(m: &Meta) -> Result<Pred, String> {
    match m {
        Meta::Path(p) => Ok(Pred::Flag(path_to_string(p))),
        Meta::NameValue(nv) => {
            let key = path_to_string(&nv.path);
            let val = match &nv.value {
                Expr::Lit(syn::ExprLit {
                    lit: syn::Lit::Str(s),
                    ..
                }) => s.value(),
                other => return Err(format!("cfg value not a string: {}", toks(other))),
            };
            if key == "feature" {
                Ok(Pred::Feature(val))
            } else {
                Ok(Pred::KeyVal(key, val))
            }
        }
        Meta::List(l) => {
            let name = path_to_string(&l.path);
            let inner = l
                .parse_args_with(Punctuated::<Meta, Token![,]>::parse_terminated)
                .map_err(|e| format!("cfg list parse: {}", e))?;
            let mut v = Vec::new();
            for m in inner.iter() {
                v.push(parse_pred_meta(m)?);
            }
            match name.as_str() {
                "all" => Ok(Pred::All(v)),
                "any" => Ok(Pred::Any(v)),
                "not" => {
                    if v.len() != 1 {
                        return Err("not() with != 1 argument".into());
                    }
                    Ok(Pred::Not(Box::new(v.pop().unwrap())))
                }
                other => Err(format!("unknown cfg combinator '{}'", other)),
            }
        }
    }
}

pub fn parse_pred_tokens(ts: TokenStream) -> Result<Pred, String> {
    let m: Meta = syn::parse2(ts).map_err(|e| format!("cfg predicate parse: {}", e))?;
    parse_pred_meta(&m)
}

impl Pred {
    /// Three-valued evaluation under: feature "verif_hooks" = false, `test` = false, all else unknown.
    pub fn eval(&self) -> Option<bool> {
        match self {
            Pred::Feature(f) if f == "verif_hooks" => Some(false),
            Pred::Feature(_) => None,
            Pred::Flag(f) if f == "test" => Some(false),
            Pred::Flag(_) => None,
            Pred::KeyVal(..) => None,
            Pred::All(v) => {
                let mut unknown = false;
                for p in v {
                    match p.eval() {
                        Some(false) => return Some(false),
                        None => unknown = true,
                        Some(true) => {}
                    }
                }
                if unknown {
                    None
                } else {
                    Some(true)
                }
            }
            Pred::Any(v) => {
                let mut unknown = false;
                for p in v {
                    match p.eval() {
                        Some(true) => return Some(true),
                        None => unknown = true,
                        Some(false) => {}
                    }
                }
                if unknown {
                    None
                } else {
                    Some(false)
                }
            }
            Pred::Not(p) => p.eval().map(|b| !b),
        }
    }

    pub fn mentions_special(&self) -> bool {
        match self {
            Pred::Feature(f) => f == "verif_hooks",
            Pred::Flag(f) => f == "test",
            Pred::KeyVal(..) => false,
            Pred::All(v) | Pred::Any(v) => v.iter().any(|p| p.mentions_special()),
            Pred::Not(p) => p.mentions_special(),
        }
    }

    /// Normalised text without spaces.
    pub fn text(&self) -> String {
        match self {
            Pred::Feature(f) => format!("feature=\"{}\"", f),
            Pred::Flag(f) => f.clone(),
            Pred::KeyVal(k, v) => format!("{}=\"{}\"", k, v),
            Pred::All(v) => format!(
                "all({})",
                v.iter().map(|p| p.text()).collect::<Vec<_>>().join(",")
            ),
            Pred::Any(v) => format!(
                "any({})",
                v.iter().map(|p| p.text()).collect::<Vec<_>>().join(",")
            ),
            Pred::Not(p) => format!("not({})", p.text()),
        }
    }
}

pub fn path_to_string(p: &syn::Path) -> String {
    p.segments
        .iter()
        .map(|s| s.ident.to_string())
        .collect::<Vec<_>>()
        .join("::")
}

#[derive(PartialEq, Eq, Debug, Clone, Copy)]
pub enum Guard {
    Keep,
    Strip,
}

/// Decide whether something carrying these attributes is compiled out in the configuration we
/// model (no `verif_hooks`, no `test`).
pub fn guard_of(attrs: &[Attribute]) -> Result<Guard, String> {
    for a in attrs {
        let name = path_to_string(a.path());
        if name == "test" || name == "bench" {
            return Ok(Guard::Strip);
        }
        if name == "cfg" {
            let l = match &a.meta {
                Meta::List(l) => l,
                _ => return Err("malformed #[cfg]".into()),
            };
            let pred = parse_pred_tokens(l.tokens.clone())?;
            match pred.eval() {
                Some(false) => return Ok(Guard::Strip),
                Some(true) => {}
                None => {
                    if pred.mentions_special() {
                        return Err(format!(
                            "cfg predicate '{}' mixes verif_hooks/test with other conditions in a way that cannot be decided",
                            pred.text()
                        ));
                    }
                }
            }
        }
        if name == "cfg_attr" {
            let s = a.meta.to_token_stream().to_string();
            if s.contains("verif_hooks") {
                return Err("cfg_attr mentioning verif_hooks".into());
            }
        }
    }
    Ok(Guard::Keep)
}

pub fn item_attrs(i: &Item) -> &[Attribute] {
    match i {
        Item::Const(x) => &x.attrs,
        Item::Enum(x) => &x.attrs,
        Item::ExternCrate(x) => &x.attrs,
        Item::Fn(x) => &x.attrs,
        Item::ForeignMod(x) => &x.attrs,
        Item::Impl(x) => &x.attrs,
        Item::Macro(x) => &x.attrs,
        Item::Mod(x) => &x.attrs,
        Item::Static(x) => &x.attrs,
        Item::Struct(x) => &x.attrs,
        Item::Trait(x) => &x.attrs,
        Item::TraitAlias(x) => &x.attrs,
        Item::Type(x) => &x.attrs,
        Item::Union(x) => &x.attrs,
        Item::Use(x) => &x.attrs,
        _ => &[],
    }
}

pub fn expr_attrs(e: &Expr) -> &[Attribute] {
    match e {
        Expr::Array(x) => &x.attrs,
        Expr::Assign(x) => &x.attrs,
        Expr::Async(x) => &x.attrs,
        Expr::Await(x) => &x.attrs,
        Expr::Binary(x) => &x.attrs,
        Expr::Block(x) => &x.attrs,
        Expr::Break(x) => &x.attrs,
        Expr::Call(x) => &x.attrs,
        Expr::Cast(x) => &x.attrs,
        Expr::Closure(x) => &x.attrs,
        Expr::Const(x) => &x.attrs,
        Expr::Continue(x) => &x.attrs,
        Expr::Field(x) => &x.attrs,
        Expr::ForLoop(x) => &x.attrs,
        Expr::Group(x) => &x.attrs,
        Expr::If(x) => &x.attrs,
        Expr::Index(x) => &x.attrs,
        Expr::Infer(x) => &x.attrs,
        Expr::Let(x) => &x.attrs,
        Expr::Lit(x) => &x.attrs,
        Expr::Loop(x) => &x.attrs,
        Expr::Macro(x) => &x.attrs,
        Expr::Match(x) => &x.attrs,
        Expr::MethodCall(x) => &x.attrs,
        Expr::Paren(x) => &x.attrs,
        Expr::Path(x) => &x.attrs,
        Expr::Range(x) => &x.attrs,
        Expr::Reference(x) => &x.attrs,
        Expr::Repeat(x) => &x.attrs,
        Expr::Return(x) => &x.attrs,
        Expr::Struct(x) => &x.attrs,
        Expr::Try(x) => &x.attrs,
        Expr::TryBlock(x) => &x.attrs,
        Expr::Tuple(x) => &x.attrs,
        Expr::Unary(x) => &x.attrs,
        Expr::Unsafe(x) => &x.attrs,
        Expr::While(x) => &x.attrs,
        Expr::Yield(x) => &x.attrs,
        _ => &[],
    }
}

fn item_name(i: &Item) -> String {
    match i {
        Item::Const(x) => format!("const {}", x.ident),
        Item::Enum(x) => format!("enum {}", x.ident),
        Item::Fn(x) => format!("fn {}", x.sig.ident),
        Item::Impl(x) => format!("impl {}", compact(&x.self_ty.to_token_stream().to_string())),
        Item::Macro(x) => format!("macro {}", path_to_string(&x.mac.path)),
        Item::Mod(x) => format!("mod {}", x.ident),
        Item::Static(x) => format!("static {}", x.ident),
        Item::Struct(x) => format!("struct {}", x.ident),
        Item::Trait(x) => format!("trait {}", x.ident),
        Item::Type(x) => format!("type {}", x.ident),
        Item::Use(_) => "use".to_string(),
        _ => "item".to_string(),
    }
}

struct Stripper<'a> {
    file: &'a str,
    err: Option<Unsupported>,
    stripped: usize,
}

impl<'a> Stripper<'a> {
    fn decide(&mut self, attrs: &[Attribute], what: &str) -> bool {
        match guard_of(attrs) {
            Ok(Guard::Keep) => true,
            Ok(Guard::Strip) => {
                self.stripped += 1;
                false
            }
            Err(why) => {
                if self.err.is_none() {
                    self.err = Some(Unsupported {
                        file: self.file.to_string(),
                        item: what.to_string(),
                        why,
                    });
                }
                true
            }
        }
    }

    fn keep_item(&mut self, i: &Item) -> bool {
        if let Item::Mod(m) = i {
            if m.ident == "verif" {
                self.stripped += 1;
                return false;
            }
        }
        let name = item_name(i);
        self.decide(item_attrs(i), &name)
    }
}

impl<'a> VisitMut for Stripper<'a> {
    fn visit_file_mut(&mut self, f: &mut syn::File) {
        let items = std::mem::take(&mut f.items);
        f.items = items.into_iter().filter(|i| self.keep_item(i)).collect();
        syn::visit_mut::visit_file_mut(self, f);
    }

    fn visit_item_mod_mut(&mut self, m: &mut syn::ItemMod) {
        if let Some((_, items)) = m.content.as_mut() {
            let old = std::mem::take(items);
            *items = old.into_iter().filter(|i| self.keep_item(i)).collect();
        }
        syn::visit_mut::visit_item_mod_mut(self, m);
    }

    fn visit_item_impl_mut(&mut self, m: &mut syn::ItemImpl) {
        let old = std::mem::take(&mut m.items);
        let what = format!("impl {}", compact(&m.self_ty.to_token_stream().to_string()));
        m.items = old
            .into_iter()
            .filter(|i| {
                let attrs: &[Attribute] = match i {
                    syn::ImplItem::Const(x) => &x.attrs,
                    syn::ImplItem::Fn(x) => &x.attrs,
                    syn::ImplItem::Type(x) => &x.attrs,
                    syn::ImplItem::Macro(x) => &x.attrs,
                    _ => &[],
                };
                self.decide(attrs, &what)
            })
            .collect();
        syn::visit_mut::visit_item_impl_mut(self, m);
    }

    fn visit_item_trait_mut(&mut self, m: &mut syn::ItemTrait) {
        let old = std::mem::take(&mut m.items);
        let what = format!("trait {}", m.ident);
        m.items = old
            .into_iter()
            .filter(|i| {
                let attrs: &[Attribute] = match i {
                    syn::TraitItem::Const(x) => &x.attrs,
                    syn::TraitItem::Fn(x) => &x.attrs,
                    syn::TraitItem::Type(x) => &x.attrs,
                    syn::TraitItem::Macro(x) => &x.attrs,
                    _ => &[],
                };
                self.decide(attrs, &what)
            })
            .collect();
        syn::visit_mut::visit_item_trait_mut(self, m);
    }

    fn visit_block_mut(&mut self, b: &mut syn::Block) {
        let old = std::mem::take(&mut b.stmts);
        b.stmts = old
            .into_iter()
            .filter(|s| match s {
                Stmt::Local(l) => self.decide(&l.attrs, "let statement"),
                Stmt::Item(i) => self.keep_item(i),
                Stmt::Expr(e, _) => self.decide(expr_attrs(e), "expression statement"),
                Stmt::Macro(m) => self.decide(&m.attrs, "macro statement"),
            })
            .collect();
        syn::visit_mut::visit_block_mut(self, b);
    }

    fn visit_fields_named_mut(&mut self, f: &mut syn::FieldsNamed) {
        let old = std::mem::take(&mut f.named);
        for field in old.into_iter() {
            if self.decide(&field.attrs, "struct field") {
                f.named.push(field);
            }
        }
        syn::visit_mut::visit_fields_named_mut(self, f);
    }

    fn visit_fields_unnamed_mut(&mut self, f: &mut syn::FieldsUnnamed) {
        let old = std::mem::take(&mut f.unnamed);
        for field in old.into_iter() {
            if self.decide(&field.attrs, "tuple field") {
                f.unnamed.push(field);
            }
        }
        syn::visit_mut::visit_fields_unnamed_mut(self, f);
    }

    fn visit_item_enum_mut(&mut self, e: &mut syn::ItemEnum) {
        let old = std::mem::take(&mut e.variants);
        let what = format!("enum {}", e.ident);
        for v in old.into_iter() {
            if self.decide(&v.attrs, &what) {
                e.variants.push(v);
            }
        }
        syn::visit_mut::visit_item_enum_mut(self, e);
    }

    fn visit_expr_match_mut(&mut self, m: &mut syn::ExprMatch) {
        let old = std::mem::take(&mut m.arms);
        m.arms = old
            .into_iter()
            .filter(|a| self.decide(&a.attrs, "match arm"))
            .collect();
        syn::visit_mut::visit_expr_match_mut(self, m);
    }

    fn visit_expr_struct_mut(&mut self, s: &mut syn::ExprStruct) {
        let old = std::mem::take(&mut s.fields);
        for fv in old.into_iter() {
            if self.decide(&fv.attrs, "struct literal field") {
                s.fields.push(fv);
            }
        }
        syn::visit_mut::visit_expr_struct_mut(self, s);
    }
}

struct LeftoverCheck<'a> {
    file: &'a str,
    err: Option<Unsupported>,
}

impl<'a, 'ast> Visit<'ast> for LeftoverCheck<'a> {
    fn visit_attribute(&mut self, a: &'ast Attribute) {
        let name = path_to_string(a.path());
        if name == "cfg" || name == "cfg_attr" || name == "test" {
            let decided_strip = match guard_of(std::slice::from_ref(a)) {
                Ok(Guard::Strip) => true,
                Ok(Guard::Keep) => false,
                Err(_) => true,
            };
            if decided_strip && self.err.is_none() {
                self.err = Some(Unsupported {
                    file: self.file.to_string(),
                    item: compact(&a.to_token_stream().to_string()),
                    why: "verif_hooks/test guard in a position the stripper does not handle".into(),
                });
            }
        }
    }

    fn visit_macro(&mut self, m: &'ast syn::Macro) {
        if path_to_string(&m.path) == "cfg" {
            if let Ok(p) = parse_pred_tokens(m.tokens.clone()) {
                if p.mentions_special() && self.err.is_none() {
                    self.err = Some(Unsupported {
                        file: self.file.to_string(),
                        item: format!("cfg!({})", p.text()),
                        why: "cfg! macro mentioning verif_hooks/test".into(),
                    });
                }
            }
        }
        syn::visit::visit_macro(self, m);
    }
}

/// Remove everything guarded by `verif_hooks` / `test` and every module named `verif`.
pub fn strip(file: &str, ast: &mut syn::File) -> R<usize> {
    let mut s = Stripper {
        file,
        err: None,
        stripped: 0,
    };
    s.visit_file_mut(ast);
    if let Some(e) = s.err {
        return Err(e);
    }
    let mut c = LeftoverCheck { file, err: None };
    c.visit_file(ast);
    if let Some(e) = c.err {
        return Err(e);
    }
    Ok(s.stripped)
}

// ---------------------------------------------------------------------------------------------
// Token pretty printing

pub fn toks<T: ToTokens>(t: &T) -> String {
    compact(&t.to_token_stream().to_string())
}

/// Turn proc-macro2's spaced token text into compact text: a space survives only between two
/// word characters (used for diagnostics and type-ish strings, not for source snippets).
pub fn compact(s: &str) -> String {
    let chars: Vec<char> = s.chars().collect();
    let mut out = String::with_capacity(s.len());
    let mut i = 0;
    let mut in_str = false;
    let is_word = |c: char| c.is_alphanumeric() || c == '_' || c == '"' || c == '\'';
    while i < chars.len() {
        let c = chars[i];
        if in_str {
            out.push(c);
            if c == '\\' && i + 1 < chars.len() {
                out.push(chars[i + 1]);
                i += 2;
                continue;
            }
            if c == '"' {
                in_str = false;
            }
            i += 1;
            continue;
        }
        if c == '"' {
            in_str = true;
            out.push(c);
            i += 1;
            continue;
        }
        if c.is_whitespace() {
            let mut j = i;
            while j < chars.len() && chars[j].is_whitespace() {
                j += 1;
            }
            let prev = out.chars().last();
            let next = chars.get(j).copied();
            if let (Some(p), Some(n)) = (prev, next) {
                if is_word(p) && is_word(n) {
                    out.push(' ');
                }
            }
            i = j;
            continue;
        }
        out.push(c);
        i += 1;
    }
    out
}

/// Exact source text of a syntax node (whitespace collapsed), using span locations.
pub fn source_snippet<T: syn::spanned::Spanned>(text: &str, node: &T) -> Option<String> {
    let span = node.span();
    let r = span.byte_range();
    if r.start >= r.end || r.end > text.len() {
        return None;
    }
    let raw = text.get(r)?;
    let mut out = String::new();
    let mut last_space = false;
    for c in raw.chars() {
        if c.is_whitespace() {
            if !last_space && !out.is_empty() {
                out.push(' ');
            }
            last_space = true;
        } else {
            out.push(c);
            last_space = false;
        }
    }
    // Multi-line method chains leave "x .y" and "( a"; tidy outside string literals.
    let chars: Vec<char> = out.trim().chars().collect();
    let mut tidy = String::with_capacity(chars.len());
    let mut in_str = false;
    let mut i = 0;
    while i < chars.len() {
        let c = chars[i];
        if in_str {
            tidy.push(c);
            if c == '\\' && i + 1 < chars.len() {
                tidy.push(chars[i + 1]);
                i += 1;
            } else if c == '"' {
                in_str = false;
            }
        } else if c == '"' {
            in_str = true;
            tidy.push(c);
        } else if c == ' ' {
            let next = chars.get(i + 1).copied();
            let prev = tidy.chars().last();
            let drop = matches!(next, Some('.') | Some(')') | Some(',') | Some('?'))
                && !(next == Some('.') && chars.get(i + 2) == Some(&'.'))
                || matches!(prev, Some('('));
            if !drop {
                tidy.push(c);
            }
        } else {
            tidy.push(c);
        }
        i += 1;
    }
    Some(tidy)
}

pub fn line_of<T: syn::spanned::Spanned>(node: &T) -> usize {
    node.span().start().line
}

pub fn truncate_chars(s: &str, n: usize) -> String {
    if s.chars().count() <= n {
        s.to_string()
    } else {
        let mut t: String = s.chars().take(n.saturating_sub(3)).collect();
        t.push_str("...");
        t
    }
}

// ---------------------------------------------------------------------------------------------
// JSON

#[derive(Debug, Clone)]
pub enum J {
    Null,
    Bool(bool),
    Int(i128),
    Str(String),
    Arr(Vec<J>),
    Obj(Vec<(String, J)>),
}

pub fn js(s: impl Into<String>) -> J {
    J::Str(s.into())
}

pub fn jn(n: usize) -> J {
    J::Int(n as i128)
}

pub fn jobj(v: Vec<(&str, J)>) -> J {
    J::Obj(v.into_iter().map(|(k, v)| (k.to_string(), v)).collect())
}

pub fn json_escape(s: &str, out: &mut String) {
    out.push('"');
    for c in s.chars() {
        match c {
            '"' => out.push_str("\\\""),
            '\\' => out.push_str("\\\\"),
            '\n' => out.push_str("\\n"),
            '\r' => out.push_str("\\r"),
            '\t' => out.push_str("\\t"),
            c if (c as u32) < 0x20 => {
                let _ = write!(out, "\\u{:04x}", c as u32);
            }
            c => out.push(c),
        }
    }
    out.push('"');
}

impl J {
    fn is_scalar(&self) -> bool {
        !matches!(self, J::Arr(_) | J::Obj(_))
    }

    pub fn write(&self, out: &mut String, indent: usize) {
        match self {
            J::Null => out.push_str("null"),
            J::Bool(b) => out.push_str(if *b { "true" } else { "false" }),
            J::Int(i) => {
                let _ = write!(out, "{}", i);
            }
            J::Str(s) => json_escape(s, out),
            J::Arr(v) => {
                if v.is_empty() {
                    out.push_str("[]");
                } else if v.iter().all(|x| x.is_scalar()) {
                    out.push('[');
                    for (i, x) in v.iter().enumerate() {
                        if i > 0 {
                            out.push_str(", ");
                        }
                        x.write(out, indent);
                    }
                    out.push(']');
                } else {
                    out.push_str("[\n");
                    for (i, x) in v.iter().enumerate() {
                        out.push_str(&"  ".repeat(indent + 1));
                        x.write(out, indent + 1);
                        if i + 1 < v.len() {
                            out.push(',');
                        }
                        out.push('\n');
                    }
                    out.push_str(&"  ".repeat(indent));
                    out.push(']');
                }
            }
            J::Obj(v) => {
                if v.is_empty() {
                    out.push_str("{}");
                } else if v.iter().all(|(_, x)| x.is_scalar()) && indent >= 2 {
                    out.push('{');
                    for (i, (k, x)) in v.iter().enumerate() {
                        if i > 0 {
                            out.push_str(", ");
                        }
                        json_escape(k, out);
                        out.push_str(": ");
                        x.write(out, indent);
                    }
                    out.push('}');
                } else {
                    out.push_str("{\n");
                    for (i, (k, x)) in v.iter().enumerate() {
                        out.push_str(&"  ".repeat(indent + 1));
                        json_escape(k, out);
                        out.push_str(": ");
                        x.write(out, indent + 1);
                        if i + 1 < v.len() {
                            out.push(',');
                        }
                        out.push('\n');
                    }
                    out.push_str(&"  ".repeat(indent));
                    out.push('}');
                }
            }
        }
    }
}

// ---------------------------------------------------------------------------------------------
// Lean

pub fn lean_str(s: &str) -> String {
    let mut out = String::with_capacity(s.len() + 2);
    out.push('"');
    for c in s.chars() {
        match c {
            '"' => out.push_str("\\\""),
            '\\' => out.push_str("\\\\"),
            '\n' => out.push_str("\\n"),
            '\r' => out.push_str("\\r"),
            '\t' => out.push_str("\\t"),
            c if (c as u32) < 0x20 || c as u32 == 0x7f => {
                let _ = write!(out, "\\x{:02x}", c as u32);
            }
            c => out.push(c),
        }
    }
    out.push('"');
    out
}

pub fn lean_opt_str(s: &Option<String>) -> String {
    match s {
        Some(x) => format!("some {}", lean_str(x)),
        None => "none".to_string(),
    }
}

pub fn lean_nat_list(v: &[usize]) -> String {
    format!(
        "[{}]",
        v.iter().map(|n| n.to_string()).collect::<Vec<_>>().join(", ")
    )
}

pub fn lean_bool(b: bool) -> &'static str {
    if b {
        "true"
    } else {
        "false"
    }
}

pub const LEAN_HEADER: &str = "-- GENERATED by xlate from /repo/yarel/src — do not edit";

pub struct LeanFile {
    pub name: String,
    body: String,
}

impl LeanFile {
    pub fn new(name: &str) -> Self {
        let mut body = String::new();
        body.push_str(LEAN_HEADER);
        body.push_str("\n\nnamespace Yarel.Gen\n");
        LeanFile {
            name: name.to_string(),
            body,
        }
    }

    pub fn comment(&mut self, text: &str) {
        if text.is_empty() {
            self.body.push('\n');
        }
        for l in text.lines() {
            let _ = writeln!(self.body, "-- {}", l);
        }
    }

    /// `def name : ty := [entries…]` with one entry per line.
    pub fn def_list(&mut self, name: &str, ty: &str, entries: &[String]) {
        let _ = write!(self.body, "\ndef {} : {} :=", name, ty);
        if entries.is_empty() {
            self.body.push_str(" []\n");
            return;
        }
        self.body.push_str("\n  [ ");
        for (i, e) in entries.iter().enumerate() {
            if i > 0 {
                self.body.push_str("\n  , ");
            }
            self.body.push_str(e);
        }
        self.body.push_str("\n  ]\n");
    }

    pub fn def_scalar(&mut self, name: &str, ty: &str, value: &str) {
        if value.starts_with('\n') {
            let _ = writeln!(self.body, "\ndef {} : {} :={}", name, ty, value);
        } else {
            let _ = writeln!(self.body, "\ndef {} : {} := {}", name, ty, value);
        }
    }

    pub fn finish(mut self) -> (String, String) {
        self.body.push_str("\nend Yarel.Gen\n");
        (self.name, self.body)
    }
}

// ---------------------------------------------------------------------------------------------
// Macro argument parsing (syn does not look inside macro invocations)

pub enum MacroArgs {
    /// Comma separated expressions: `format!(a, b, c)`.
    Exprs(Vec<Expr>),
    /// `vec![x; n]`
    Repeat(Expr, Expr),
    /// Item-position macro whose body is a list of items (`thread_local!`).
    Items(Vec<Item>),
    /// `macro_rules!` definition: parsed right-hand sides that contain no metavariables, and the
    /// number of arms that were skipped because they do.
    MacroRules {
        bodies: Vec<syn::Block>,
        #[allow(dead_code)]
        skipped: usize,
    },
}

pub fn parse_macro_args(file: &str, ctx: &str, m: &syn::Macro) -> R<MacroArgs> {
    let name = path_to_string(&m.path);
    if name == "macro_rules" {
        return parse_macro_rules(file, ctx, m);
    }
    if name == "thread_local" {
        let f: syn::File = match syn::parse2(m.tokens.clone()) {
            Ok(f) => f,
            Err(e) => return unsup(file, ctx, format!("thread_local! body not parsable as items: {}", e)),
        };
        return Ok(MacroArgs::Items(f.items));
    }
    if m.tokens.is_empty() {
        return Ok(MacroArgs::Exprs(Vec::new()));
    }
    if let Ok(p) = m.parse_body_with(Punctuated::<Expr, Token![,]>::parse_terminated) {
        return Ok(MacroArgs::Exprs(p.into_iter().collect()));
    }
    // vec![x; n]
    struct Rep(Expr, Expr);
    impl syn::parse::Parse for Rep {
        fn parse(input: syn::parse::ParseStream) -> syn::Result<Self> {
            let a: Expr = input.parse()?;
            let _: Token![;] = input.parse()?;
            let b: Expr = input.parse()?;
            Ok(Rep(a, b))
        }
    }
    if let Ok(Rep(a, b)) = m.parse_body::<Rep>() {
        return Ok(MacroArgs::Repeat(a, b));
    }
    unsup(
        file,
        ctx,
        format!("arguments of macro {}! are not a comma separated expression list", name),
    )
}

fn parse_macro_rules(file: &str, ctx: &str, m: &syn::Macro) -> R<MacroArgs> {
    // arms: (matcher) => {body} ; ...
    let tts: Vec<TokenTree> = m.tokens.clone().into_iter().collect();
    let mut bodies = Vec::new();
    let mut skipped = 0;
    let mut i = 0;
    while i < tts.len() {
        // matcher group
        match &tts[i] {
            TokenTree::Group(_) => {}
            TokenTree::Punct(p) if p.as_char() == ';' => {
                i += 1;
                continue;
            }
            other => {
                return unsup(file, ctx, format!("macro_rules! arm starts with unexpected token {}", other));
            }
        }
        let arrow_ok = matches!(tts.get(i + 1), Some(TokenTree::Punct(p)) if p.as_char() == '=')
            && matches!(tts.get(i + 2), Some(TokenTree::Punct(p)) if p.as_char() == '>');
        let body = match tts.get(i + 3) {
            Some(TokenTree::Group(g)) if arrow_ok => g,
            _ => return unsup(file, ctx, "macro_rules! arm without `=> {body}`"),
        };
        let text = body.stream().to_string();
        if text.contains('$') {
            skipped += 1;
        } else {
            // Body is either statements or a single braced expression block.
            let as_block: syn::Result<syn::Block> =
                syn::parse2(quote::quote!({ #body }).into_iter().collect::<TokenStream>());
            let inner_stream = body.stream();
            let wrapped: TokenStream = quote::quote!({ #inner_stream });
            let parsed: syn::Result<syn::Block> = syn::parse2(wrapped);
            match parsed.or(as_block) {
                Ok(b) => bodies.push(b),
                Err(e) => return unsup(file, ctx, format!("macro_rules! body not parsable: {}", e)),
            }
        }
        i += 4;
    }
    Ok(MacroArgs::MacroRules { bodies, skipped })
}

// ---------------------------------------------------------------------------------------------
// Function-context walker: a `Visit` wrapper that knows the name of the enclosing function and
// descends into macro arguments.

pub trait SiteSink {
    /// Called for every expression (including those inside macro arguments).
    fn expr(&mut self, _ctx: &Ctx, _e: &Expr) {}
    /// Called for every macro invocation.
    fn mac(&mut self, _ctx: &Ctx, _m: &syn::Macro) {}
    /// Called for every `let` statement.
    fn local(&mut self, _ctx: &Ctx, _l: &syn::Local) {}
    /// Called for every attribute that survived stripping.
    fn attr(&mut self, _ctx: &Ctx, _a: &Attribute, _own_item: Option<&str>) {}
    /// Called on entry to each function (free fn, impl fn, nested fn) and each non-fn item with
    /// expressions (const/static).
    fn enter_fn(&mut self, _ctx: &Ctx, _sig: Option<&syn::Signature>) {}
}

#[derive(Clone, Default)]
pub struct Ctx {
    pub file: String,
    pub mods: Vec<String>,
    /// `Vm`, `<Gc<T> as GcManaged>` …
    pub impl_prefix: Option<String>,
    pub fns: Vec<String>,
    /// Set for const/static items outside any fn.
    pub item: Option<String>,
}

impl Ctx {
    pub fn fn_name(&self) -> String {
        let mut parts: Vec<String> = self.mods.clone();
        if let Some(p) = &self.impl_prefix {
            parts.push(p.clone());
        }
        if self.fns.is_empty() {
            if let Some(i) = &self.item {
                parts.push(i.clone());
            } else if self.impl_prefix.is_none() {
                parts.push("<module>".to_string());
            }
        } else {
            parts.extend(self.fns.iter().cloned());
        }
        parts.join("::")
    }
}

pub struct Walker<'s, S: SiteSink> {
    pub ctx: Ctx,
    pub sink: &'s mut S,
    pub err: Option<Unsupported>,
}

impl<'s, S: SiteSink> Walker<'s, S> {
    pub fn new(file: &str, sink: &'s mut S) -> Self {
        Walker {
            ctx: Ctx {
                file: file.to_string(),
                ..Default::default()
            },
            sink,
            err: None,
        }
    }

    fn own_attrs(&mut self, attrs: &[Attribute], own: &str) {
        for a in attrs {
            self.sink.attr(&self.ctx, a, Some(own));
        }
    }
}

pub fn impl_prefix(i: &syn::ItemImpl) -> String {
    let ty = toks(&*i.self_ty);
    match &i.trait_ {
        Some((_, path, _)) => {
            let t = path
                .segments
                .last()
                .map(|s| toks(s))
                .unwrap_or_default();
            format!("<{} as {}>", ty, t)
        }
        None => {
            // Strip generic parameters of plain `Type<T>` inherent impls: `Gc<T>` -> `Gc`.
            match &*i.self_ty {
                syn::Type::Path(p) if p.qself.is_none() => {
                    let last = p.path.segments.last().unwrap();
                    let concrete = match &last.arguments {
                        syn::PathArguments::AngleBracketed(ab) => {
                            let generic_names: Vec<String> = i
                                .generics
                                .params
                                .iter()
                                .filter_map(|g| match g {
                                    syn::GenericParam::Type(t) => Some(t.ident.to_string()),
                                    syn::GenericParam::Const(c) => Some(c.ident.to_string()),
                                    _ => None,
                                })
                                .collect();
                            ab.args.iter().any(|a| {
                                if matches!(a, syn::GenericArgument::Lifetime(_)) {
                                    return false;
                                }
                                let s = toks(a);
                                !generic_names.contains(&s)
                            })
                        }
                        _ => false,
                    };
                    if concrete {
                        ty
                    } else {
                        last.ident.to_string()
                    }
                }
                _ => ty,
            }
        }
    }
}

impl<'s, 'ast, S: SiteSink> Visit<'ast> for Walker<'s, S> {
    fn visit_item_mod(&mut self, m: &'ast syn::ItemMod) {
        let own = {
            let mut c = self.ctx.clone();
            c.item = Some(format!("mod {}", m.ident));
            c.fn_name()
        };
        self.own_attrs(&m.attrs, &own);
        self.ctx.mods.push(m.ident.to_string());
        if let Some((_, items)) = &m.content {
            for i in items {
                self.visit_item(i);
            }
        }
        self.ctx.mods.pop();
    }

    fn visit_item_impl(&mut self, i: &'ast syn::ItemImpl) {
        let prev = self.ctx.impl_prefix.take();
        let prefix = impl_prefix(i);
        let own = {
            let mut parts = self.ctx.mods.clone();
            parts.push(format!("impl {}", prefix));
            parts.join("::")
        };
        self.own_attrs(&i.attrs, &own);
        self.ctx.impl_prefix = Some(prefix);
        for it in &i.items {
            self.visit_impl_item(it);
        }
        self.ctx.impl_prefix = prev;
    }

    fn visit_impl_item_fn(&mut self, f: &'ast syn::ImplItemFn) {
        self.ctx.fns.push(f.sig.ident.to_string());
        let own = self.ctx.fn_name();
        self.own_attrs(&f.attrs, &own);
        self.sink.enter_fn(&self.ctx, Some(&f.sig));
        self.visit_block(&f.block);
        self.ctx.fns.pop();
    }

    fn visit_item_fn(&mut self, f: &'ast syn::ItemFn) {
        // A nested fn inside an impl method is named outer::inner, without repeating the impl.
        self.ctx.fns.push(f.sig.ident.to_string());
        let own = self.ctx.fn_name();
        self.own_attrs(&f.attrs, &own);
        self.sink.enter_fn(&self.ctx, Some(&f.sig));
        self.visit_block(&f.block);
        self.ctx.fns.pop();
    }

    fn visit_trait_item_fn(&mut self, f: &'ast syn::TraitItemFn) {
        self.ctx.fns.push(f.sig.ident.to_string());
        let own = self.ctx.fn_name();
        self.own_attrs(&f.attrs, &own);
        self.sink.enter_fn(&self.ctx, Some(&f.sig));
        if let Some(b) = &f.default {
            self.visit_block(b);
        }
        self.ctx.fns.pop();
    }

    fn visit_item_trait(&mut self, t: &'ast syn::ItemTrait) {
        let prev = self.ctx.impl_prefix.take();
        let own = {
            let mut parts = self.ctx.mods.clone();
            parts.push(format!("trait {}", t.ident));
            parts.join("::")
        };
        self.own_attrs(&t.attrs, &own);
        self.ctx.impl_prefix = Some(t.ident.to_string());
        for it in &t.items {
            self.visit_trait_item(it);
        }
        self.ctx.impl_prefix = prev;
    }

    fn visit_item_const(&mut self, c: &'ast syn::ItemConst) {
        let prev = self.ctx.item.take();
        self.ctx.item = Some(format!("const {}", c.ident));
        let own = self.ctx.fn_name();
        self.own_attrs(&c.attrs, &own);
        if self.ctx.fns.is_empty() {
            self.sink.enter_fn(&self.ctx, None);
        }
        self.visit_expr(&c.expr);
        self.ctx.item = prev;
    }

    fn visit_item_static(&mut self, c: &'ast syn::ItemStatic) {
        let prev = self.ctx.item.take();
        self.ctx.item = Some(format!("static {}", c.ident));
        let own = self.ctx.fn_name();
        self.own_attrs(&c.attrs, &own);
        if self.ctx.fns.is_empty() {
            self.sink.enter_fn(&self.ctx, None);
        }
        self.visit_expr(&c.expr);
        self.ctx.item = prev;
    }

    fn visit_impl_item_const(&mut self, c: &'ast syn::ImplItemConst) {
        let prev = self.ctx.item.take();
        self.ctx.item = Some(format!("const {}", c.ident));
        let own = self.ctx.fn_name();
        self.own_attrs(&c.attrs, &own);
        self.visit_expr(&c.expr);
        self.ctx.item = prev;
    }

    fn visit_item_struct(&mut self, s: &'ast syn::ItemStruct) {
        let own = {
            let mut c = self.ctx.clone();
            c.item = Some(format!("struct {}", s.ident));
            c.fn_name()
        };
        self.own_attrs(&s.attrs, &own);
        for f in s.fields.iter() {
            self.own_attrs(&f.attrs, &own);
        }
    }

    fn visit_item_enum(&mut self, s: &'ast syn::ItemEnum) {
        let own = {
            let mut c = self.ctx.clone();
            c.item = Some(format!("enum {}", s.ident));
            c.fn_name()
        };
        self.own_attrs(&s.attrs, &own);
        for v in s.variants.iter() {
            self.own_attrs(&v.attrs, &own);
            if let Some((_, e)) = &v.discriminant {
                self.visit_expr(e);
            }
        }
    }

    fn visit_item_use(&mut self, u: &'ast syn::ItemUse) {
        self.own_attrs(&u.attrs, "use");
    }

    fn visit_item_type(&mut self, u: &'ast syn::ItemType) {
        let own = format!("type {}", u.ident);
        self.own_attrs(&u.attrs, &own);
    }

    fn visit_attribute(&mut self, a: &'ast Attribute) {
        // Attributes on statements / expressions / arms inside bodies.
        self.sink.attr(&self.ctx, a, None);
    }

    fn visit_expr(&mut self, e: &'ast Expr) {
        self.sink.expr(&self.ctx, e);
        syn::visit::visit_expr(self, e);
    }

    fn visit_local(&mut self, l: &'ast syn::Local) {
        self.sink.local(&self.ctx, l);
        syn::visit::visit_local(self, l);
    }

    fn visit_macro(&mut self, m: &'ast syn::Macro) {
        self.sink.mac(&self.ctx, m);
        let ctx_name = format!("{} (macro {}!)", self.ctx.fn_name(), path_to_string(&m.path));
        match parse_macro_args(&self.ctx.file, &ctx_name, m) {
            Ok(MacroArgs::Exprs(v)) => {
                for e in &v {
                    self.visit_expr(e);
                }
            }
            Ok(MacroArgs::Repeat(a, b)) => {
                self.visit_expr(&a);
                self.visit_expr(&b);
            }
            Ok(MacroArgs::Items(items)) => {
                for i in &items {
                    self.visit_item(i);
                }
            }
            Ok(MacroArgs::MacroRules { bodies, .. }) => {
                for b in &bodies {
                    self.visit_block(b);
                }
            }
            Err(e) => {
                if self.err.is_none() {
                    self.err = Some(e);
                }
            }
        }
    }
}

pub fn walk<S: SiteSink>(src: &Src, sink: &mut S) -> R<()> {
    let mut w = Walker::new(&src.name, sink);
    w.visit_file(&src.ast);
    match w.err {
        Some(e) => Err(e),
        None => Ok(()),
    }
}

/// Stable counters keyed by string.
#[derive(Default)]
pub struct Counters(pub BTreeMap<String, usize>);

impl Counters {
    pub fn next(&mut self, key: &str) -> usize {
        let e = self.0.entry(key.to_string()).or_insert(0);
        let v = *e;
        *e += 1;
        v
    }
}
