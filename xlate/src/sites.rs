//! Tables F (panic sites), G (messages), H (cfg sites, fiber writes).

use crate::common::*;
use std::collections::{BTreeMap, BTreeSet};
use syn::Expr;

// ---------------------------------------------------------------------------------------------
// F

pub struct PanicSite {
    pub file: String,
    pub func: String,
    pub kind: String,
    pub ordinal: usize,
    pub snippet: String,
    pub line: usize,
}

pub struct PanicSites {
    pub sites: Vec<PanicSite>,
}

const PANIC_METHODS: [&str; 4] = ["unwrap", "expect", "offset", "offset_from"];
const PANIC_MACROS: [&str; 10] = [
    "panic",
    "unreachable",
    "unimplemented",
    "todo",
    "assert",
    "assert_eq",
    "assert_ne",
    "debug_assert",
    "debug_assert_eq",
    "debug_assert_ne",
];

fn is_unchecked(name: &str) -> bool {
    name.ends_with("_unchecked") || name.ends_with("_unchecked_mut")
}

struct PanicSink<'a> {
    text: &'a str,
    counters: Counters,
    sites: Vec<PanicSite>,
}

impl<'a> PanicSink<'a> {
    fn push<T: syn::spanned::Spanned + quote::ToTokens>(&mut self, ctx: &Ctx, kind: &str, node: &T) {
        let func = ctx.fn_name();
        let ordinal = self.counters.next(&format!("{}\u{0}{}", func, kind));
        let snippet = source_snippet(self.text, node).unwrap_or_else(|| toks(node));
        self.sites.push(PanicSite {
            file: ctx.file.clone(),
            func,
            kind: kind.to_string(),
            ordinal,
            snippet: truncate_chars(&snippet, 60),
            line: line_of(node),
        });
    }
}

impl<'a> SiteSink for PanicSink<'a> {
    fn expr(&mut self, ctx: &Ctx, e: &Expr) {
        match e {
            Expr::MethodCall(mc) => {
                let m = mc.method.to_string();
                if PANIC_METHODS.contains(&m.as_str()) || is_unchecked(&m) {
                    self.push(ctx, &m, e);
                }
            }
            Expr::Call(c) => {
                if let Expr::Path(p) = &*c.func {
                    if let Some(last) = p.path.segments.last() {
                        let n = last.ident.to_string();
                        if is_unchecked(&n) {
                            self.push(ctx, &n, e);
                        }
                    }
                }
            }
            Expr::Index(ix) => {
                let kind = if matches!(&*ix.index, Expr::Range(_)) { "slice" } else { "index" };
                self.push(ctx, kind, e);
            }
            Expr::Unsafe(_) => self.push(ctx, "unsafe_block", e),
            _ => {}
        }
    }

    fn mac(&mut self, ctx: &Ctx, m: &syn::Macro) {
        let n = m.path.segments.last().map(|s| s.ident.to_string()).unwrap_or_default();
        if PANIC_MACROS.contains(&n.as_str()) {
            self.push(ctx, &format!("{}!", n), m);
        }
    }
}

pub fn panic_sites(srcs: &[Src]) -> R<PanicSites> {
    let mut all = Vec::new();
    for s in srcs {
        let mut sink = PanicSink {
            text: &s.text,
            counters: Counters::default(),
            sites: Vec::new(),
        };
        walk(s, &mut sink)?;
        all.extend(sink.sites);
    }
    Ok(PanicSites { sites: all })
}

impl PanicSites {
    pub fn to_json(&self) -> J {
        let mut per_file: BTreeMap<String, BTreeMap<String, usize>> = BTreeMap::new();
        for s in &self.sites {
            *per_file.entry(s.file.clone()).or_default().entry(s.kind.clone()).or_default() += 1;
        }
        jobj(vec![
            ("total", jn(self.sites.len())),
            (
                "per_file",
                J::Obj(
                    per_file
                        .iter()
                        .map(|(f, kinds)| {
                            let total: usize = kinds.values().sum();
                            let mut v: Vec<(String, J)> = vec![("total".to_string(), jn(total))];
                            v.extend(kinds.iter().map(|(k, n)| (k.clone(), jn(*n))));
                            (f.clone(), J::Obj(v))
                        })
                        .collect(),
                ),
            ),
            (
                "sites",
                J::Arr(
                    self.sites
                        .iter()
                        .map(|s| {
                            jobj(vec![
                                ("file", js(s.file.clone())),
                                ("fn", js(s.func.clone())),
                                ("kind", js(s.kind.clone())),
                                ("ordinal", jn(s.ordinal)),
                                ("line", jn(s.line)),
                                ("snippet", js(s.snippet.clone())),
                            ])
                        })
                        .collect(),
                ),
            ),
        ])
    }

    pub fn to_lean(&self) -> LeanFile {
        let mut l = LeanFile::new("PanicSites.lean");
        l.comment("Table F: potential panic / UB sites: (file, enclosing fn, kind, ordinal of that kind within the fn, snippet).");
        l.comment("Kinds: unwrap expect offset offset_from *_unchecked index slice unsafe_block and the macros panic! unreachable! unimplemented! todo! assert*! debug_assert*!.");
        l.def_list(
            "panicSites",
            "List (String × String × String × Nat × String)",
            &self
                .sites
                .iter()
                .map(|s| {
                    format!(
                        "({}, {}, {}, {}, {})",
                        lean_str(&s.file),
                        lean_str(&s.func),
                        lean_str(&s.kind),
                        s.ordinal,
                        lean_str(&s.snippet)
                    )
                })
                .collect::<Vec<_>>(),
        );
        l
    }
}

// ---------------------------------------------------------------------------------------------
// G

pub struct Message {
    pub file: String,
    pub func: String,
    pub ordinal: usize,
    pub kind: String,
    pub fmt: String,
    pub via: String,
    pub line: usize,
}

pub struct Messages {
    pub msgs: Vec<Message>,
    pub carriers: Vec<(String, String, Vec<usize>)>,
}

/// (file, seed function, message parameter name, kind label)
const MESSAGE_SEEDS: [(&str, &str, &str, &str); 2] = [
    ("compiler.rs", "error_at", "message", "CompileError"),
    ("scanner.rs", "error_token", "message", "ScanError"),
];

fn short_fn(ctx: &Ctx) -> String {
    ctx.fns.first().cloned().unwrap_or_default()
}

fn strip_expr(e: &Expr) -> &Expr {
    let mut e = e;
    loop {
        match e {
            Expr::Reference(r) => e = &r.expr,
            Expr::Paren(p) => e = &p.expr,
            Expr::Group(p) => e = &p.expr,
            Expr::MethodCall(mc)
                if mc.args.is_empty()
                    && matches!(mc.method.to_string().as_str(), "as_str" | "as_ref" | "to_string" | "clone") =>
            {
                e = &mc.receiver
            }
            _ => return e,
        }
    }
}

fn bare_ident(e: &Expr) -> Option<String> {
    match strip_expr(e) {
        Expr::Path(p) if p.path.segments.len() == 1 && p.qself.is_none() => Some(p.path.segments[0].ident.to_string()),
        _ => None,
    }
}

fn str_lit(e: &Expr) -> Option<String> {
    match e {
        Expr::Lit(syn::ExprLit {
            lit: syn::Lit::Str(s), ..
        }) => Some(s.value()),
        _ => None,
    }
}

fn resolve_msg(e: &Expr, lets: &BTreeMap<String, Expr>, depth: usize) -> String {
    let e = strip_expr(e);
    if let Some(s) = str_lit(e) {
        return s;
    }
    if let Expr::Macro(m) = e {
        if path_to_string(&m.mac.path) == "format" {
            if let Ok(MacroArgs::Exprs(v)) = parse_macro_args("", "", &m.mac) {
                if let Some(s) = v.first().and_then(str_lit) {
                    return s;
                }
            }
        }
    }
    if let Some(id) = bare_ident(e) {
        if depth < 4 {
            if let Some(init) = lets.get(&id) {
                return resolve_msg(init, lets, depth + 1);
            }
        }
        return format!("<dynamic:{}>", id);
    }
    format!("<dynamic:{}>", truncate_chars(&toks(e), 60))
}

fn error_kind(e: &Expr) -> String {
    match e {
        Expr::Path(p) => {
            let segs: Vec<String> = p.path.segments.iter().map(|s| s.ident.to_string()).collect();
            if segs.len() >= 2 && segs[segs.len() - 2] == "ErrorKind" {
                return segs[segs.len() - 1].clone();
            }
            format!("<dynamic:{}>", segs.join("::"))
        }
        other => format!("<dynamic:{}>", truncate_chars(&toks(other), 40)),
    }
}

/// Pass 1: per function, its parameters and the calls it makes.
#[derive(Default)]
struct CallGraphSink {
    params: BTreeMap<String, Vec<String>>,
    calls: Vec<(String, String, Vec<Expr>)>, // (caller short name, callee short name, args)
}

impl SiteSink for CallGraphSink {
    fn enter_fn(&mut self, ctx: &Ctx, sig: Option<&syn::Signature>) {
        if let Some(sig) = sig {
            if ctx.fns.len() == 1 {
                let ps = sig
                    .inputs
                    .iter()
                    .filter_map(|a| match a {
                        syn::FnArg::Typed(pt) => Some(toks(&*pt.pat)),
                        _ => None,
                    })
                    .collect();
                self.params.insert(short_fn(ctx), ps);
            }
        }
    }

    fn expr(&mut self, ctx: &Ctx, e: &Expr) {
        if let Expr::MethodCall(mc) = e {
            self.calls
                .push((short_fn(ctx), mc.method.to_string(), mc.args.iter().cloned().collect()));
        }
    }
}

struct MessageSink<'a> {
    carriers: &'a BTreeMap<String, BTreeSet<usize>>,
    compile_kind: Option<&'a str>,
    params: &'a BTreeMap<String, Vec<String>>,
    lets: BTreeMap<String, BTreeMap<String, Expr>>,
    /// per fn: `if let Some(a) = b` with both bare identifiers: (a, b)
    iflets: BTreeMap<String, Vec<(String, String)>>,
    /// per fn: `x = Some("lit")` / `x = "lit"`: (x, lit, line)
    assigns: BTreeMap<String, Vec<(String, String, usize)>>,
    counters: Counters,
    msgs: Vec<Message>,
    err: Option<Unsupported>,
}

impl<'a> MessageSink<'a> {
    fn push(&mut self, ctx: &Ctx, kind: String, fmt: String, via: &str, line: usize) {
        let func = ctx.fn_name();
        let ordinal = self.counters.next(&func);
        self.msgs.push(Message {
            file: ctx.file.clone(),
            func,
            ordinal,
            kind,
            fmt,
            via: via.to_string(),
            line,
        });
    }

    fn lets_of(&self, ctx: &Ctx) -> BTreeMap<String, Expr> {
        self.lets.get(&ctx.fn_name()).cloned().unwrap_or_default()
    }
}

impl<'a> SiteSink for MessageSink<'a> {
    fn local(&mut self, ctx: &Ctx, l: &syn::Local) {
        if let (syn::Pat::Ident(pi), Some(init)) = (&l.pat, &l.init) {
            self.lets
                .entry(ctx.fn_name())
                .or_default()
                .insert(pi.ident.to_string(), (*init.expr).clone());
        }
    }

    fn mac(&mut self, ctx: &Ctx, m: &syn::Macro) {
        if m.path.segments.last().map(|s| s.ident == "error").unwrap_or(false) {
            let item = format!("{} (error!)", ctx.fn_name());
            match parse_macro_args(&ctx.file, &item, m) {
                Ok(MacroArgs::Exprs(v)) if v.len() >= 2 => match str_lit(&v[1]) {
                    Some(s) => {
                        let k = error_kind(&v[0]);
                        self.push(ctx, k, s, "error!", line_of(m));
                    }
                    None => {
                        if self.err.is_none() {
                            self.err = Some(Unsupported {
                                file: ctx.file.clone(),
                                item,
                                why: "second argument of error! is not a string literal".into(),
                            });
                        }
                    }
                },
                Ok(_) => {
                    if self.err.is_none() {
                        self.err = Some(Unsupported {
                            file: ctx.file.clone(),
                            item,
                            why: "error! with fewer than two arguments".into(),
                        });
                    }
                }
                Err(e) => {
                    if self.err.is_none() {
                        self.err = Some(e);
                    }
                }
            }
        }
    }

    fn expr(&mut self, ctx: &Ctx, e: &Expr) {
        match e {
            Expr::Let(l) if self.compile_kind.is_some() => {
                if let syn::Pat::TupleStruct(ts) = &*l.pat {
                    if path_to_string(&ts.path) == "Some" && ts.elems.len() == 1 {
                        if let (syn::Pat::Ident(pi), Some(src)) = (&ts.elems[0], bare_ident(&l.expr)) {
                            self.iflets
                                .entry(ctx.fn_name())
                                .or_default()
                                .push((pi.ident.to_string(), src));
                        }
                    }
                }
            }
            Expr::Assign(a) if self.compile_kind.is_some() => {
                if let Some(target) = bare_ident(&a.left) {
                    let lit = match &*a.right {
                        Expr::Call(c) if toks(&*c.func) == "Some" && c.args.len() == 1 => str_lit(&c.args[0]),
                        other => str_lit(other),
                    };
                    if let Some(lit) = lit {
                        self.assigns
                            .entry(ctx.fn_name())
                            .or_default()
                            .push((target, lit, line_of(e)));
                    }
                }
            }
            Expr::Call(c) => {
                if let Expr::Path(p) = &*c.func {
                    let segs: Vec<String> = p.path.segments.iter().map(|s| s.ident.to_string()).collect();
                    if segs.len() >= 2 && segs[segs.len() - 2] == "Error" {
                        let f = segs[segs.len() - 1].as_str();
                        if f == "with_message" && c.args.len() == 2 {
                            let lets = self.lets_of(ctx);
                            let k = error_kind(&c.args[0]);
                            let s = resolve_msg(&c.args[1], &lets, 0);
                            self.push(ctx, k, s, "Error::with_message", line_of(e));
                        } else if f == "with_messages" && c.args.len() == 2 {
                            let k = error_kind(&c.args[0]);
                            let s = match strip_expr(&c.args[1]) {
                                Expr::Array(a) if a.elems.iter().all(|x| str_lit(x).is_some()) => a
                                    .elems
                                    .iter()
                                    .map(|x| str_lit(x).unwrap())
                                    .collect::<Vec<_>>()
                                    .join("\n"),
                                other => format!("<dynamic:{}>", truncate_chars(&toks(other), 60)),
                            };
                            self.push(ctx, k, s, "Error::with_messages", line_of(e));
                        }
                    }
                }
            }
            Expr::MethodCall(mc) => {
                let kind = match self.compile_kind {
                    Some(k) => k,
                    None => return,
                };
                let callee = mc.method.to_string();
                let idxs = match self.carriers.get(&callee) {
                    Some(i) => i.clone(),
                    None => return,
                };
                let me = short_fn(ctx);
                let my_params = self.params.get(&me).cloned().unwrap_or_default();
                let my_msg_params: Vec<String> = self
                    .carriers
                    .get(&me)
                    .map(|s| s.iter().filter_map(|i| my_params.get(*i).cloned()).collect())
                    .unwrap_or_default();
                let lets = self.lets_of(ctx);
                for i in idxs {
                    let arg = match mc.args.iter().nth(i) {
                        Some(a) => a,
                        None => continue,
                    };
                    if let Some(id) = bare_ident(arg) {
                        if my_msg_params.contains(&id) && !lets.contains_key(&id) {
                            continue; // pass-through of the caller's own message parameter
                        }
                    }
                    let s = resolve_msg(arg, &lets, 0);
                    self.push(ctx, kind.to_string(), s, &callee, line_of(e));
                }
            }
            _ => {}
        }
    }
}

pub fn messages(srcs: &[Src]) -> R<Messages> {
    let mut all = Vec::new();
    let mut carriers_out = Vec::new();
    let empty_carriers: BTreeMap<String, BTreeSet<usize>> = BTreeMap::new();
    let empty_params: BTreeMap<String, Vec<String>> = BTreeMap::new();
    for s in srcs {
        let seed = MESSAGE_SEEDS.iter().find(|(f, ..)| *f == s.name);
        let mut carriers: BTreeMap<String, BTreeSet<usize>> = BTreeMap::new();
        let mut cg = CallGraphSink::default();
        if let Some((file, func, param, _)) = seed {
            walk(s, &mut cg)?;
            let ps = match cg.params.get(*func) {
                Some(p) => p,
                None => return unsup(file, func, "message seed function not found"),
            };
            let idx = match ps.iter().position(|p| p == param) {
                Some(i) => i,
                None => return unsup(file, func, format!("no parameter named '{}'", param)),
            };
            carriers.entry(func.to_string()).or_default().insert(idx);
            // Fixpoint: a fn parameter passed unchanged at a message position is a message parameter.
            loop {
                let mut changed = false;
                for (caller, callee, args) in &cg.calls {
                    let idxs = match carriers.get(callee) {
                        Some(i) => i.clone(),
                        None => continue,
                    };
                    let cps = match cg.params.get(caller) {
                        Some(p) => p,
                        None => continue,
                    };
                    for i in idxs {
                        if let Some(id) = args.get(i).and_then(bare_ident) {
                            if let Some(pi) = cps.iter().position(|p| *p == id) {
                                if carriers.entry(caller.clone()).or_default().insert(pi) {
                                    changed = true;
                                }
                            }
                        }
                    }
                }
                if !changed {
                    break;
                }
            }
            for (f, idxs) in &carriers {
                carriers_out.push((s.name.clone(), f.clone(), idxs.iter().copied().collect()));
            }
        }
        let mut sink = MessageSink {
            carriers: if seed.is_some() { &carriers } else { &empty_carriers },
            compile_kind: seed.map(|x| x.3),
            params: if seed.is_some() { &cg.params } else { &empty_params },
            lets: BTreeMap::new(),
            iflets: BTreeMap::new(),
            assigns: BTreeMap::new(),
            counters: Counters::default(),
            msgs: Vec::new(),
            err: None,
        };
        walk(s, &mut sink)?;
        if let Some(e) = sink.err {
            return Err(e);
        }
        // A dynamic message `<dynamic:id>` whose value flows from literals assigned to a local in
        // the same fn (`err = Some("…")` … `if let Some(id) = err`): add one entry per literal.
        let mut extra = Vec::new();
        for m in &sink.msgs {
            let id = match m.fmt.strip_prefix("<dynamic:").and_then(|r| r.strip_suffix('>')) {
                Some(id) if id.chars().all(|c| c.is_alphanumeric() || c == '_') => id.to_string(),
                _ => continue,
            };
            let mut sources = vec![id.clone()];
            for (a, b) in sink.iflets.get(&m.func).map(|v| v.as_slice()).unwrap_or(&[]) {
                if *a == id {
                    sources.push(b.clone());
                }
            }
            for (target, lit, line) in sink.assigns.get(&m.func).map(|v| v.as_slice()).unwrap_or(&[]) {
                if sources.contains(target) {
                    extra.push((m.func.clone(), m.kind.clone(), lit.clone(), format!("{}<-{}", m.via, target), *line));
                }
            }
        }
        for (func, kind, fmt, via, line) in extra {
            let ordinal = sink.counters.next(&func);
            sink.msgs.push(Message {
                file: s.name.clone(),
                func,
                ordinal,
                kind,
                fmt,
                via,
                line,
            });
        }
        all.extend(sink.msgs);
    }
    Ok(Messages {
        msgs: all,
        carriers: carriers_out,
    })
}

impl Messages {
    pub fn to_json(&self) -> J {
        jobj(vec![
            ("total", jn(self.msgs.len())),
            (
                "message_carrying_functions",
                J::Arr(
                    self.carriers
                        .iter()
                        .map(|(f, n, i)| {
                            jobj(vec![
                                ("file", js(f.clone())),
                                ("fn", js(n.clone())),
                                ("message_param_indices", J::Arr(i.iter().map(|x| jn(*x)).collect())),
                            ])
                        })
                        .collect(),
                ),
            ),
            (
                "messages",
                J::Arr(
                    self.msgs
                        .iter()
                        .map(|m| {
                            jobj(vec![
                                ("file", js(m.file.clone())),
                                ("fn", js(m.func.clone())),
                                ("ordinal", jn(m.ordinal)),
                                ("kind", js(m.kind.clone())),
                                ("format", js(m.fmt.clone())),
                                ("via", js(m.via.clone())),
                                ("line", jn(m.line)),
                            ])
                        })
                        .collect(),
                ),
            ),
        ])
    }

    pub fn to_lean(&self) -> LeanFile {
        let mut l = LeanFile::new("Messages.lean");
        l.comment("Table G: error message sites: (file, enclosing fn, ordinal within fn, ErrorKind | CompileError | ScanError, format string).");
        l.comment("\"<dynamic:…>\" marks a message that is not a literal at the call site.");
        l.def_list(
            "messages",
            "List (String × String × Nat × String × String)",
            &self
                .msgs
                .iter()
                .map(|m| {
                    format!(
                        "({}, {}, {}, {}, {})",
                        lean_str(&m.file),
                        lean_str(&m.func),
                        m.ordinal,
                        lean_str(&m.kind),
                        lean_str(&m.fmt)
                    )
                })
                .collect::<Vec<_>>(),
        );
        l
    }
}

// ---------------------------------------------------------------------------------------------
// H

pub struct CfgSites {
    /// every place a collection can start from: (file, enclosing fn, the call as written)
    pub collect_calls: Vec<(String, String, String)>,
    /// every place that can change the length or the content of a chunk's `code` / `lines` vectors: (file, enclosing fn, what)
    pub chunk_writes: Vec<(String, String, String)>,
    /// every place that writes one of the tracked fields of the run-time structures: (field, file, enclosing fn, what)
    pub state_writes: Vec<(String, String, String, String)>,
    pub intern_uses: Vec<(String, String, String)>,
    /// the statements of `Vm::new_gc_obj_string`, one normalised token string each
    pub intern_glue: Vec<String>,
    /// other glue functions as written (hook statements stripped): (lean name, statements)
    pub glue_text: Vec<(String, Vec<String>)>,
    /// every call of `ObjString::new`: (file, enclosing fn)
    pub obj_string_ctors: Vec<(String, String)>,
    pub intern_methods: Vec<String>,
    pub cfgs: Vec<(String, String, String, String, usize)>, // file, where, predicate, form, line
    pub fiber_writes: Vec<(String, String, usize, String, usize)>, // fn, field, ordinal, op, line
    pub fiber_inits: Vec<(String, String)>,
}

struct CfgSink {
    collect_calls: Vec<(String, String, String)>,
    chunk_writes: Vec<(String, String, String)>,
    state_writes: Vec<(String, String, String, String)>,
    intern_uses: Vec<(String, String, String)>,
    intern_methods: Vec<String>,
    cfgs: Vec<(String, String, String, String, usize)>,
    fiber_writes: Vec<(String, String, usize, String, usize)>,
    fiber_inits: Vec<(String, String)>,
    counters: Counters,
    is_vm: bool,
    err: Option<Unsupported>,
}

fn fiber_field(e: &Expr) -> Option<String> {
    match e {
        Expr::Field(f) => match &f.member {
            syn::Member::Named(i) if i == "fiber" || i == "unsafe_fiber" => Some(i.to_string()),
            _ => None,
        },
        Expr::Paren(p) => fiber_field(&p.expr),
        _ => None,
    }
}

impl SiteSink for CfgSink {
    fn attr(&mut self, ctx: &Ctx, a: &syn::Attribute, own: Option<&str>) {
        let name = path_to_string(a.path());
        let wher = own.map(|s| s.to_string()).unwrap_or_else(|| ctx.fn_name());
        if name == "cfg" {
            if let syn::Meta::List(l) = &a.meta {
                match parse_pred_tokens(l.tokens.clone()) {
                    Ok(p) => {
                        if p.eval().is_none() {
                            self.cfgs
                                .push((ctx.file.clone(), wher, p.text(), "attr".into(), line_of(a)));
                        }
                    }
                    Err(why) => {
                        if self.err.is_none() {
                            self.err = Some(Unsupported {
                                file: ctx.file.clone(),
                                item: wher,
                                why,
                            });
                        }
                    }
                }
            }
        } else if name == "cfg_attr" {
            let t = match &a.meta {
                syn::Meta::List(l) => l.tokens.to_string().replace(' ', ""),
                _ => String::new(),
            };
            self.cfgs
                .push((ctx.file.clone(), wher, format!("cfg_attr({})", t), "cfg_attr".into(), line_of(a)));
        }
    }

    fn mac(&mut self, ctx: &Ctx, m: &syn::Macro) {
        let mname = path_to_string(&m.path);
        if matches!(mname.as_str(), "debug_assert" | "debug_assert_eq" | "debug_assert_ne") {
            // evaluated in builds with debug assertions only: its argument (and any side effect in it) exists in those builds alone
            self.cfgs.push((
                ctx.file.clone(),
                ctx.fn_name(),
                format!("debug_assertions /* {}!({}) */", mname, truncate_chars(&compact(&m.tokens.to_string()), 80)),
                "debug_assert".into(),
                line_of(m),
            ));
            return;
        }
        if path_to_string(&m.path) == "cfg" {
            match parse_pred_tokens(m.tokens.clone()) {
                Ok(p) => self
                    .cfgs
                    .push((ctx.file.clone(), ctx.fn_name(), p.text(), "macro".into(), line_of(m))),
                Err(why) => {
                    if self.err.is_none() {
                        self.err = Some(Unsupported {
                            file: ctx.file.clone(),
                            item: ctx.fn_name(),
                            why,
                        });
                    }
                }
            }
        }
    }

    fn expr(&mut self, ctx: &Ctx, e: &Expr) {
        // a call that starts a collection: `collect` / `collect_if_required` on the heap (receiver `self` inside `impl Heap`, or an
        // expression naming the heap), or a call of a free function of that name (`memory::collect()`); `Iterator::collect` has an
        // iterator chain as receiver and is not one
        match e {
            Expr::MethodCall(mc) if mc.method == "collect" || mc.method == "collect_if_required" => {
                let recv = compact(&toks(&*mc.receiver));
                let in_heap = ctx.impl_prefix.as_deref().map(|p| p == "Heap").unwrap_or(false);
                if (recv == "self" && in_heap) || recv.to_lowercase().contains("heap") {
                    self.collect_calls.push((ctx.file.clone(), ctx.fn_name(), compact(&toks(e))));
                }
            }
            Expr::Call(c) => {
                let f = compact(&toks(&*c.func));
                let last = f.rsplit("::").next().unwrap_or("").to_string();
                if matches!(last.as_str(), "collect" | "collect_if_required" | "force_collect" | "collect_garbage" | "gc") {
                    self.collect_calls.push((ctx.file.clone(), ctx.fn_name(), compact(&toks(e))));
                }
            }
            _ => {}
        }
        // a chunk's `code` / `lines` vectors: every method call on them that is not a known read, every assignment to them or to an
        // element of them, every `&mut` borrow of them
        {
            fn vec_of(e: &Expr) -> Option<&'static str> {
                match e {
                    Expr::Field(f) => match &f.member {
                        syn::Member::Named(i) if i == "code" => Some("code"),
                        syn::Member::Named(i) if i == "lines" => Some("lines"),
                        _ => None,
                    },
                    Expr::Paren(p) => vec_of(&p.expr),
                    Expr::Reference(r) => vec_of(&r.expr),
                    _ => None,
                }
            }
            const READS: &[&str] = &["len", "as_ptr", "as_ptr_range", "iter", "get", "last", "first", "is_empty", "as_slice", "clone", "to_vec", "contains"];
            match e {
                Expr::MethodCall(mc) => {
                    if let Some(v) = vec_of(&mc.receiver) {
                        let m = mc.method.to_string();
                        if !READS.contains(&m.as_str()) {
                            self.chunk_writes.push((ctx.file.clone(), ctx.fn_name(), format!("{}.{}", v, m)));
                        }
                    }
                }
                Expr::Assign(a) => {
                    if let Some(v) = vec_of(&a.left) {
                        self.chunk_writes.push((ctx.file.clone(), ctx.fn_name(), format!("{} = ..", v)));
                    } else if let Expr::Index(ix) = &*a.left {
                        if let Some(v) = vec_of(&ix.expr) {
                            self.chunk_writes.push((ctx.file.clone(), ctx.fn_name(), format!("{}[_] = ..", v)));
                        }
                    }
                }
                Expr::Binary(b) if matches!(b.op, syn::BinOp::AddAssign(_) | syn::BinOp::SubAssign(_) | syn::BinOp::MulAssign(_) | syn::BinOp::BitXorAssign(_)
                    | syn::BinOp::BitAndAssign(_) | syn::BinOp::BitOrAssign(_) | syn::BinOp::ShlAssign(_) | syn::BinOp::ShrAssign(_) | syn::BinOp::DivAssign(_) | syn::BinOp::RemAssign(_)) => {
                    if let Expr::Index(ix) = &*b.left {
                        if let Some(v) = vec_of(&ix.expr) {
                            self.chunk_writes.push((ctx.file.clone(), ctx.fn_name(), format!("{}[_] op= ..", v)));
                        }
                    }
                }
                Expr::Reference(r) if r.mutability.is_some() => {
                    if let Some(v) = vec_of(&r.expr) {
                        self.chunk_writes.push((ctx.file.clone(), ctx.fn_name(), format!("&mut {}", v)));
                    }
                }
                _ => {}
            }
        }
        // tracked fields of the run-time structures: every assignment to `<expr>.F`, every method call on `<expr>.F` that is not a known
        // read, every `&mut <expr>.F`
        {
            const TRACKED: &[&str] = &[
                "open_upvalues", "exc_handlers", "caller", "frames", "return_ip", "return_value", "error_ip", "handling_exception", "modules", "imported",
                "range_cache", "working_class_def", "superclass", "methods", "metaclass", "bytes_allocated", "next_gc", "num_roots", "colour", "active_module",
                "string_store", "call_arity", "native_arity",
            ];
            const READS: &[&str] = &[
                "len", "iter", "get", "last", "first", "is_empty", "is_some", "is_none", "as_ref", "borrow", "clone", "unwrap", "expect", "contains_key", "as_gc", "as_ptr",
                "map", "copied", "cloned", "values", "keys", "mark", "blacken", "eq", "ne", "is_open_with_pred", "as_root", "fmt", "to_string", "find", "rev", "position",
                "unwrap_or_default", "unwrap_or", "as_deref", "and_then", "or", "filter", "any", "all", "capacity", "set", "get_or_insert_with",
            ];
            fn tracked_of(e: &Expr) -> Option<String> {
                match e {
                    Expr::Field(f) => match &f.member {
                        syn::Member::Named(i) if TRACKED.contains(&i.to_string().as_str()) => Some(i.to_string()),
                        _ => None,
                    },
                    Expr::Paren(p) => tracked_of(&p.expr),
                    Expr::Reference(r) => tracked_of(&r.expr),
                    _ => None,
                }
            }
            // `set` on a Cell (colour.set, num_roots.set) IS a write: handled before the read list
            match e {
                Expr::MethodCall(mc) => {
                    if let Some(fld) = tracked_of(&mc.receiver) {
                        let m = mc.method.to_string();
                        let is_cell_write = matches!(m.as_str(), "set" | "replace" | "take" | "swap") ;
                        if is_cell_write || !READS.contains(&m.as_str()) {
                            self.state_writes.push((fld, ctx.file.clone(), ctx.fn_name(), format!(".{}", m)));
                        }
                    }
                }
                Expr::Assign(a) => {
                    if let Some(fld) = tracked_of(&a.left) {
                        self.state_writes.push((fld, ctx.file.clone(), ctx.fn_name(), "= ..".to_string()));
                    }
                }
                Expr::Binary(b) if matches!(b.op, syn::BinOp::AddAssign(_) | syn::BinOp::SubAssign(_) | syn::BinOp::MulAssign(_)) => {
                    if let Some(fld) = tracked_of(&b.left) {
                        self.state_writes.push((fld, ctx.file.clone(), ctx.fn_name(), "op= ..".to_string()));
                    }
                }
                Expr::Reference(r) if r.mutability.is_some() => {
                    if let Some(fld) = tracked_of(&r.expr) {
                        self.state_writes.push((fld, ctx.file.clone(), ctx.fn_name(), "&mut".to_string()));
                    }
                }
                _ => {}
            }
        }
        // the string intern table: every method called on it, and every method it has
        if let Expr::MethodCall(mc) = e {
            let recv = compact(&toks(&*mc.receiver));
            if recv.ends_with("string_store") {
                self.intern_uses.push((ctx.file.clone(), ctx.fn_name(), mc.method.to_string()));
            }
        }
        if ctx.impl_prefix.as_deref() == Some("ObjStringStore") {
            let f = ctx.fn_name();
            if !self.intern_methods.contains(&f) {
                self.intern_methods.push(f);
            }
        }
        if !self.is_vm {
            return;
        }
        let mut hit: Option<(String, String)> = None;
        match e {
            Expr::Assign(a) => {
                if let Some(f) = fiber_field(&a.left) {
                    hit = Some((f, "assign".into()));
                }
            }
            Expr::Binary(b) => {
                let compound = matches!(
                    b.op,
                    syn::BinOp::AddAssign(_)
                        | syn::BinOp::SubAssign(_)
                        | syn::BinOp::MulAssign(_)
                        | syn::BinOp::DivAssign(_)
                        | syn::BinOp::BitOrAssign(_)
                        | syn::BinOp::BitAndAssign(_)
                        | syn::BinOp::BitXorAssign(_)
                        | syn::BinOp::ShlAssign(_)
                        | syn::BinOp::ShrAssign(_)
                        | syn::BinOp::RemAssign(_)
                );
                if compound {
                    if let Some(f) = fiber_field(&b.left) {
                        hit = Some((f, "compound_assign".into()));
                    }
                }
            }
            Expr::MethodCall(mc) => {
                if let Some(f) = fiber_field(&mc.receiver) {
                    let m = mc.method.to_string();
                    if matches!(
                        m.as_str(),
                        "replace" | "take" | "insert" | "get_or_insert" | "get_or_insert_with" | "take_if" | "swap"
                    ) {
                        hit = Some((f, m));
                    }
                }
            }
            Expr::Reference(r) if r.mutability.is_some() => {
                if let Some(f) = fiber_field(&r.expr) {
                    hit = Some((f, "mut_borrow".into()));
                }
            }
            Expr::Struct(s) => {
                if s.path.segments.last().map(|x| x.ident == "Vm").unwrap_or(false) {
                    for fv in &s.fields {
                        if let syn::Member::Named(i) = &fv.member {
                            if i == "fiber" || i == "unsafe_fiber" {
                                self.fiber_inits.push((ctx.fn_name(), i.to_string()));
                            }
                        }
                    }
                }
            }
            _ => {}
        }
        if let Some((field, op)) = hit {
            let func = ctx.fn_name();
            let ord = self.counters.next(&func);
            self.fiber_writes.push((func, field, ord, op, line_of(e)));
        }
    }
}

pub fn cfg_sites(srcs: &[Src]) -> R<CfgSites> {
    let mut out = CfgSites {
        intern_glue: Vec::new(),
        glue_text: Vec::new(),
        obj_string_ctors: Vec::new(),
        collect_calls: Vec::new(),
        chunk_writes: Vec::new(),
        state_writes: Vec::new(),
        intern_uses: Vec::new(),
        intern_methods: Vec::new(),
        cfgs: Vec::new(),
        fiber_writes: Vec::new(),
        fiber_inits: Vec::new(),
    };
    let mut saw_vm = false;
    for s in srcs {
        let mut sink = CfgSink {
            collect_calls: Vec::new(),
            chunk_writes: Vec::new(),
            state_writes: Vec::new(),
            intern_uses: Vec::new(),
            intern_methods: Vec::new(),
            cfgs: Vec::new(),
            fiber_writes: Vec::new(),
            fiber_inits: Vec::new(),
            counters: Counters::default(),
            is_vm: s.name == "vm.rs",
            err: None,
        };
        saw_vm |= sink.is_vm;
        walk(s, &mut sink)?;
        if let Some(e) = sink.err {
            return Err(e);
        }
        out.cfgs.extend(sink.cfgs);
        out.collect_calls.extend(sink.collect_calls);
        out.chunk_writes.extend(sink.chunk_writes);
        out.state_writes.extend(sink.state_writes);
        out.intern_uses.extend(sink.intern_uses);
        for m in sink.intern_methods {
            if !out.intern_methods.contains(&m) {
                out.intern_methods.push(m);
            }
        }
        out.fiber_writes.extend(sink.fiber_writes);
        out.fiber_inits.extend(sink.fiber_inits);
    }
    if !saw_vm {
        return unsup("vm.rs", "<file>", "not found");
    }
    for s in srcs {
        let mut g = GlueVisitor { file: s.name.clone(), fns: Vec::new(), glue: Vec::new(), texts: Vec::new(), ctors: Vec::new(), skip: 0 };
        syn::visit::Visit::visit_file(&mut g, &s.ast);
        out.intern_glue.extend(g.glue);
        out.glue_text.extend(g.texts);
        out.obj_string_ctors.extend(g.ctors);
    }
    if out.intern_glue.is_empty() {
        return unsup("vm.rs", "Vm::new_gc_obj_string", "not found");
    }
    for (file, want) in GLUE_FNS {
        if out.glue_text.iter().filter(|(n, _)| n == &want.replace("::", "_")).count() != 1 {
            return unsup(file, want, "not found exactly once");
        }
    }
    out.glue_text.sort();
    Ok(out)
}

/// Statements of `Vm::new_gc_obj_string` and the call sites of `ObjString::new` (items under `cfg(test)` / `cfg(feature = "verif_hooks")` skipped).
/// Functions that hand models transcribe and that are not translated: (file, name). Modules (C14), re-use (C15), captured variables (C06),
/// the class table and the property / invoke / super paths (C07), the hash map natives (C12).
const GLUE_FNS: &[(&str, &str)] = &[
    ("vm.rs", "Vm::start_import_impl"), ("vm.rs", "Vm::finish_import_impl"), ("vm.rs", "Vm::module"),
    ("vm.rs", "Vm::reset"), ("vm.rs", "Vm::reset_stack"), ("vm.rs", "Vm::execute"),
    ("vm.rs", "Vm::capture_upvalue"), ("object.rs", "ObjFiber::close_upvalues"), ("object.rs", "ObjFiber::close_upvalues_for_frame"),
    ("vm.rs", "Vm::declare_class_impl"), ("vm.rs", "Vm::define_class_impl"), ("vm.rs", "Vm::inherit_impl"), ("vm.rs", "Vm::static_method_impl"),
    ("vm.rs", "Vm::define_method"), ("vm.rs", "Vm::bind_method"), ("vm.rs", "Vm::get_property_impl"), ("vm.rs", "Vm::set_property_impl"),
    ("vm.rs", "Vm::get_super_impl"), ("vm.rs", "Vm::invoke_impl"), ("vm.rs", "Vm::super_invoke_impl"), ("vm.rs", "Vm::invoke_from_class"), ("vm.rs", "Vm::invoke"),
    ("vm.rs", "Vm::build_hash_map_impl"), ("vm.rs", "Vm::build_hash_map"),
    ("core.rs", "hash_map_has_key"), ("core.rs", "hash_map_get"), ("core.rs", "hash_map_insert"), ("core.rs", "hash_map_remove"), ("core.rs", "hash_map_clear"),
    ("core.rs", "hash_map_len"), ("core.rs", "hash_map_keys"), ("core.rs", "hash_map_values"), ("core.rs", "hash_map_items"), ("core.rs", "validate_hash_map_key"),
];

/// Removes every statement under `cfg(feature = "verif_hooks")`, at any depth.
struct StripHooks;
impl syn::visit_mut::VisitMut for StripHooks {
    fn visit_block_mut(&mut self, b: &mut syn::Block) {
        b.stmts.retain(|st| !quote::ToTokens::to_token_stream(st).to_string().starts_with("# [cfg (feature = \"verif_hooks\")]"));
        syn::visit_mut::visit_block_mut(self, b);
    }
}

fn glue_lines(sig: &syn::Signature, block: &syn::Block) -> Vec<String> {
    let mut b = block.clone();
    syn::visit_mut::VisitMut::visit_block_mut(&mut StripHooks, &mut b);
    let mut v = vec![quote::ToTokens::to_token_stream(sig).to_string()];
    for st in &b.stmts {
        v.push(quote::ToTokens::to_token_stream(st).to_string());
    }
    v
}

struct GlueVisitor {
    texts: Vec<(String, Vec<String>)>,
    file: String,
    fns: Vec<String>,
    glue: Vec<String>,
    ctors: Vec<(String, String)>,
    skip: usize,
}

fn hook_or_test(attrs: &[syn::Attribute]) -> bool {
    attrs.iter().any(|a| {
        a.path().is_ident("cfg") && {
            let t = quote::ToTokens::to_token_stream(a).to_string();
            t.contains("verif_hooks") || t.contains("test")
        }
    })
}

impl<'ast> syn::visit::Visit<'ast> for GlueVisitor {
    fn visit_item_mod(&mut self, m: &'ast syn::ItemMod) {
        if hook_or_test(&m.attrs) {
            return;
        }
        syn::visit::visit_item_mod(self, m);
    }
    fn visit_item_fn(&mut self, f: &'ast syn::ItemFn) {
        if hook_or_test(&f.attrs) {
            return;
        }
        if self.fns.is_empty() && GLUE_FNS.contains(&(self.file.as_str(), f.sig.ident.to_string().as_str())) {
            self.texts.push((f.sig.ident.to_string(), glue_lines(&f.sig, &f.block)));
        }
        self.fns.push(f.sig.ident.to_string());
        syn::visit::visit_item_fn(self, f);
        self.fns.pop();
    }
    fn visit_item_impl(&mut self, i: &'ast syn::ItemImpl) {
        if hook_or_test(&i.attrs) {
            return;
        }
        let ty = quote::ToTokens::to_token_stream(&i.self_ty).to_string().replace(' ', "");
        self.fns.push(ty);
        syn::visit::visit_item_impl(self, i);
        self.fns.pop();
    }
    fn visit_impl_item_fn(&mut self, f: &'ast syn::ImplItemFn) {
        if hook_or_test(&f.attrs) {
            return;
        }
        let owner = self.fns.last().cloned().unwrap_or_default();
        let name = format!("{}::{}", owner, f.sig.ident);
        if self.file == "vm.rs" && name == "Vm::new_gc_obj_string" {
            self.glue.push(quote::ToTokens::to_token_stream(&f.sig).to_string());
            for st in &f.block.stmts {
                self.glue.push(quote::ToTokens::to_token_stream(st).to_string());
            }
        }
        if GLUE_FNS.contains(&(self.file.as_str(), name.as_str())) {
            self.texts.push((name.replace("::", "_"), glue_lines(&f.sig, &f.block)));
        }
        self.fns.push(name);
        syn::visit::visit_impl_item_fn(self, f);
        self.fns.pop();
    }
    fn visit_expr_call(&mut self, c: &'ast syn::ExprCall) {
        if let Expr::Path(p) = &*c.func {
            let segs: Vec<String> = p.path.segments.iter().map(|s| s.ident.to_string()).collect();
            if segs.len() >= 2 && segs[segs.len() - 2] == "ObjString" && segs[segs.len() - 1] == "new" {
                self.ctors.push((self.file.clone(), self.fns.last().cloned().unwrap_or_default()));
            }
        }
        let _ = self.skip;
        syn::visit::visit_expr_call(self, c);
    }
}

impl CfgSites {
    pub fn to_json(&self) -> J {
        jobj(vec![
            (
                "collect_calls",
                J::Arr(
                    self.collect_calls
                        .iter()
                        .map(|(f, w, c)| jobj(vec![("file", js(f.clone())), ("where", js(w.clone())), ("call", js(c.clone()))]))
                        .collect(),
                ),
            ),
            (
                "cfg_sites",
                J::Arr(
                    self.cfgs
                        .iter()
                        .map(|(f, w, p, form, line)| {
                            jobj(vec![
                                ("file", js(f.clone())),
                                ("where", js(w.clone())),
                                ("predicate", js(p.clone())),
                                ("form", js(form.clone())),
                                ("line", jn(*line)),
                            ])
                        })
                        .collect(),
                ),
            ),
            (
                "fiber_writes",
                J::Arr(
                    self.fiber_writes
                        .iter()
                        .map(|(f, field, ord, op, line)| {
                            jobj(vec![
                                ("fn", js(f.clone())),
                                ("field", js(field.clone())),
                                ("ordinal", jn(*ord)),
                                ("op", js(op.clone())),
                                ("line", jn(*line)),
                            ])
                        })
                        .collect(),
                ),
            ),
            (
                "fiber_struct_inits",
                J::Arr(
                    self.fiber_inits
                        .iter()
                        .map(|(f, field)| jobj(vec![("fn", js(f.clone())), ("field", js(field.clone()))]))
                        .collect(),
                ),
            ),
        ])
    }

    pub fn to_lean(&self) -> LeanFile {
        let mut l = LeanFile::new("CfgSites.lean");
        l.comment("Table H: conditional compilation sites (cfg!(…) and #[cfg(…)], other than test / verif_hooks):");
        l.comment("(file, enclosing fn or item, predicate without spaces).");
        l.def_list(
            "cfgSites",
            "List (String × String × String)",
            &self
                .cfgs
                .iter()
                .map(|(f, w, p, _, _)| format!("({}, {}, {})", lean_str(f), lean_str(w), lean_str(p)))
                .collect::<Vec<_>>(),
        );
        l.comment("");
        l.comment("Every call that starts a collection (verif_hooks / test items stripped): (file, enclosing fn, the call as written).");
        l.def_list(
            "collectCalls",
            "List (String × String × String)",
            &self
                .collect_calls
                .iter()
                .map(|(f, w, c)| format!("({}, {}, {})", lean_str(f), lean_str(w), lean_str(c)))
                .collect::<Vec<_>>(),
        );
        l.comment("");
        l.comment("Every place that can change a chunk's `code` / `lines` vectors (method calls on them other than reads, assignments to them or their elements, `&mut` borrows; verif_hooks / test items stripped): (file, enclosing fn, what).");
        l.def_list(
            "chunkWrites",
            "List (String × String × String)",
            &self.chunk_writes.iter().map(|(f, w, c)| format!("({}, {}, {})", lean_str(f), lean_str(w), lean_str(c))).collect::<Vec<_>>(),
        );
        l.comment("");
        l.comment("Every place that writes a tracked field of the run-time structures (assignments, method calls other than known reads, `&mut` borrows; verif_hooks / test items stripped): (field, file, enclosing fn, what).");
        l.def_list(
            "stateWrites",
            "List (String × String × String × String)",
            &self.state_writes.iter().map(|(a, f, w, c)| format!("({}, {}, {}, {})", lean_str(a), lean_str(f), lean_str(w), lean_str(c))).collect::<Vec<_>>(),
        );
        l.comment("");
        l.comment("Every method call on the string intern table (`…string_store.m(..)`; verif_hooks / test items stripped): (file, enclosing fn, method).");
        l.def_list(
            "internUses",
            "List (String × String × String)",
            &self.intern_uses.iter().map(|(f, w, c)| format!("({}, {}, {})", lean_str(f), lean_str(w), lean_str(c))).collect::<Vec<_>>(),
        );
        l.comment("");
        l.comment("`Vm::new_gc_obj_string` as written: its signature, then each statement of its body (token strings).");
        l.def_list("internGlue", "List String", &self.intern_glue.iter().map(|m| lean_str(m)).collect::<Vec<_>>());
        for (n, v) in &self.glue_text {
            l.comment("");
            l.comment(&format!("`{}` as written: signature, then each statement (statements under cfg(verif_hooks) stripped at every depth).", n));
            l.def_list(&format!("glue_{}", n), "List String", &v.iter().map(|m| lean_str(m)).collect::<Vec<_>>());
        }
        l.comment("");
        l.comment("Every call of `ObjString::new` (verif_hooks / test items stripped): (file, enclosing fn).");
        l.def_list("objStringCtors", "List (String × String)", &self.obj_string_ctors.iter().map(|(f, w)| format!("({}, {})", lean_str(f), lean_str(w))).collect::<Vec<_>>());
        l.comment("");
        l.comment("The methods of `impl ObjStringStore` (those with a body that contains an expression).");
        l.def_list("internMethods", "List String", &self.intern_methods.iter().map(|m| lean_str(m)).collect::<Vec<_>>());
        l.comment("");
        l.comment("Writes to Vm.fiber / Vm.unsafe_fiber in vm.rs (assignment, replace, take, …): (enclosing fn, field, ordinal within fn).");
        l.def_list(
            "fiberWrites",
            "List (String × String × Nat)",
            &self
                .fiber_writes
                .iter()
                .map(|(f, field, ord, _, _)| format!("({}, {}, {})", lean_str(f), lean_str(field), ord))
                .collect::<Vec<_>>(),
        );
        l
    }
}
